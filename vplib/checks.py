"""Per-property checks."""
import os, sys, time, json, random, re, subprocess
from . import core
from .core import Case, hx, unhx
from .gen import programs
from .gen.sexp import render, Q, Str, BQ, UQ, SPL, FQ, Dot, Wrap

TRUSTED_BASE = [
    'Coq 8.16.1 kernel (coqc; coqchk in the thorough tier); no native_compute',
    'no axioms declared; Print Assumptions of every property theorem must be "Closed under the global context" (float operations are a Section variable / record argument, not axioms)',
    'extraction: ExtrOcamlBasic only (Extract Inductive bool, option, unit, prod, list, sumbool, sumor); no Extract Constant',
    'OCaml driver ocaml/driver.ml incl. its binary64 oracle (hardware doubles, shortest round-trip printing)',
    'Rust harness harness/src/main.rs, generators and comparison in vplib/',
    'hand-written model coq/Model/*.v: all of tulisp is modelled rather than verified; the tie is the correspondence run of this check',
    'not modelled: RefCell borrow state, Rc counts/Drop, ctxobj caching, object identity of heap values (eq on conses/strings), println output, real file-system errors',
]

def tier_n(tier, quick, thorough):
    return quick if tier == 'quick' else thorough

# ---------------------------------------------------------------- proof gate
FORBIDDEN = re.compile(r'\b(Admitted|admit|Axiom|Parameter|Conjecture|Unset Guard|bypass_check|type-in-type|Admit Obligations)\b')

def proof_gate(prop):
    """Builds the Coq development and inspects Props/<prop>.v.
    Returns dict(obligations, discharged, theorems, problems, axioms)."""
    rc, out = core.build_coq()
    problems = []
    if rc != 0:
        problems.append('coq build failed: ' + out[-1500:])
    # forbidden vocabulary anywhere in the development
    for d, _, fs in os.walk(core.COQ):
        for f in fs:
            if f.endswith('.v'):
                txt = open(os.path.join(d, f)).read()
                txt_nc = re.sub(r'\(\*.*?\*\)', '', txt, flags=re.S)
                m = FORBIDDEN.search(txt_nc)
                if m:
                    problems.append('%s uses %s' % (f, m.group(1)))
    pfile = os.path.join(core.COQ, 'Props', prop + '.v')
    theorems = []
    if not os.path.exists(pfile):
        return {'obligations': 0, 'discharged': 0, 'theorems': [], 'problems': problems + ['no Props file'], 'axioms': []}
    txt = open(pfile).read()
    theorems = re.findall(r'^(?:Theorem|Corollary)\s+(\w+)', txt, flags=re.M)
    # re-run coqc on the property file alone to capture Print Assumptions output
    discharged = 0
    axioms = []
    if rc == 0:
        rc2, out2 = core.sh('coqc -Q . TL Props/%s.v' % prop, cwd=core.COQ, check=False, timeout=900)
        if rc2 != 0:
            problems.append('Props/%s.v does not compile: %s' % (prop, out2[-800:]))
        else:
            closed = out2.count('Closed under the global context')
            ax = re.findall(r'^Axioms:\n((?:.+\n)+)', out2, flags=re.M)
            if ax:
                axioms = [a.strip() for a in ax]
                problems.append('property theorems depend on axioms: ' + '; '.join(axioms)[:500])
            discharged = min(closed, len(theorems)) if not ax else 0
            if closed < len(theorems):
                problems.append('only %d of %d theorems print "Closed under the global context"' % (closed, len(theorems)))
    return {'obligations': len(theorems), 'discharged': discharged, 'theorems': theorems,
            'problems': problems, 'axioms': axioms}

# ---------------------------------------------------------------- generic finish
class Result:
    def __init__(self, prop, tier, seed):
        self.prop, self.tier, self.seed = prop, tier, seed
        self.t0 = time.time()
        self.violations = []      # (replay_path, suffix)
        self.known = []
        self.cov = {'evaluations': 0, 'distinct_nontrivial': 0, 'samples': [], 'rule': ''}
        self.notes = []

    def violation(self, name, obj, no_input=False):
        path = core.write_replay(self.prop, name, obj)
        self.violations.append((path, ' no-failing-input-found' if no_input else ''))

    def finish(self, gate, level='proof', assumptions=None):
        cov = dict(self.cov)
        cov.update({'obligations': gate['obligations'], 'discharged': gate['discharged'],
                    'checker_cmd': 'make -C coq (coqc 8.16.1, full .vo build) + coqc Props/%s.v (Print Assumptions)' % self.prop,
                    'trusted_base': TRUSTED_BASE, 'theorems': gate['theorems'],
                    'explanation': '; '.join(self.notes)})
        if gate['problems']:
            self.violation('proof-gate', {'kind': 'proof obligation no longer checks',
                                          'theorems': gate['theorems'], 'problems': gate['problems']},
                           no_input=True)
        core.write_evidence(self.prop, self.tier, self.seed, level, cov, time.time() - self.t0,
                            violations=len(self.violations), assumptions=assumptions or [])
        for k in self.known:
            print('KNOWN-FINDING: property=%s %s' % (self.prop, k))
        for path, suffix in self.violations[:20]:
            print('VIOLATION property=%s replay=%s%s' % (self.prop, path, suffix))
        sys.stdout.flush()
        return 1 if self.violations else 0

def sample_cases(cases, k=3):
    return [{'case': c.cid, 'requests': c.readable()} for c in cases[:k]]

def known_findings(prop):
    p = os.path.join(core.ROOT, 'known_findings.json')
    if not os.path.exists(p): return []
    return [k for k in json.load(open(p)).get('findings', []) if k['property'] == prop]

def replay_known(res, prop, impl_bin=None):
    """Replays the witness of each listed finding; prints KNOWN-FINDING while it still fails."""
    impl_bin = impl_bin or core.TLIMPL_DEBUG
    for k in known_findings(prop):
        c = Case('kf')
        for t in k['witness']:
            c.eval(t)
        out = core.run_side(impl_bin, [c])
        lines = out.get('kf', [])
        if not lines: continue
        idx, kind, payload, ticks = core.parse_line(lines[-1])
        got = unhx(payload) if kind == 'V' else kind
        if got == k['as_built'] and k['as_built'] != k['prescribed']:
            res.known.append('%s: %s' % (k['id'], k['what']))
        elif got == k['as_built']:
            pass            # decided by the classifier hits of this run
        elif got != k['prescribed']:
            res.violation('known-finding-changed', {'finding': k, 'got': got})

def classifier_hits(res, prop, cid, n, example):
    """Failing generated cases accepted by a named classifier: known only if the file lists it."""
    if not n: return
    for k in known_findings(prop):
        if k.get('classifier') == cid:
            line = '%s: %s (%d generated cases in this run, e.g. %s)' % (k['id'], k['what'], n, example)
            res.known = [x for x in res.known if not x.startswith(k['id'] + ':')] + [line]
            return
    res.violation('unlisted-class', {'classifier': cid, 'cases': n, 'example': example})

# ---------------------------------------------------------------- differential helper
class CorpusCase:
    """A case kept verbatim from an earlier disagreement (minimised failures run first, in every tier)."""
    def __init__(self, cid, body): self.cid = cid; self.body = body; self.meta = {'corpus': True}
    def text(self): return 'case %s\n%s' % (self.cid, self.body)
    def readable(self):
        c = Case(self.cid); c.lines = ['case ' + self.cid] + [l for l in self.body.split('\n') if l and l != 'end']
        return c.readable()

def corpus_cases(prop):
    path = os.path.join(core.ROOT, 'corpus', prop + '.txt')
    if not os.path.exists(path): return []
    out = []
    for chunk in open(path).read().split('case corp')[1:]:
        cid, body = chunk.split('\n', 1)
        out.append(CorpusCase('corp' + cid.strip(), body))
    return out

def differential(res, cases, impl_bin=None, observe=core.default_observe, env=None, label='corr'):
    impl_bin = impl_bin or core.TLIMPL_DEBUG
    if not getattr(res, 'corpus_done', False) and observe is core.default_observe and env is None:
        res.corpus_done = True
        cc = corpus_cases(res.prop)
        res.cov['corpus_cases'] = len(cc)
        cases = cc + list(cases)
    impl = core.run_side(impl_bin, cases, env=env, announce=True)
    model = core.run_side(core.TLMODEL, cases, env=env)
    ncmp, nskip, dis = core.compare(cases, impl, model, observe)
    res.cov['evaluations'] += ncmp
    res.cov['skipped_outside_model'] = res.cov.get('skipped_outside_model', 0) + nskip
    res.cov['disagreements_checked'] = res.cov.get('disagreements_checked', 0) + len(dis)
    byid = {c.cid: c for c in cases}
    for d in dis[:10]:
        c = byid[d['case']]
        d2 = dict(d); d2['requests'] = c.readable(); d2['correspondence'] = label
        d2['impl_decoded'] = decode_line(d['impl']); d2['model_decoded'] = decode_line(d['model'])
        d2['raw_case'] = c.text()
        res.pending.append(d2)
    return impl, model, dis

def decode_line(l):
    if not l: return None
    try:
        idx, kind, payload, ticks = core.parse_line(l)
        if kind == 'V': payload = unhx(payload)
        if kind == 'PARSE' and payload.startswith('ok '): payload = 'ok ' + unhx(payload[3:])
        if kind == 'VARS':
            payload = ';'.join('%s=%s:%s' % (unhx(a.split('=')[0]), a.split('=')[1].split(':')[0],
                               ','.join(unhx(v) for v in a.split(':', 1)[1].split(',') if v))
                               for a in payload.split(';') if a)
        t = None
        if ticks and ticks not in ('-', '?'):
            t = [(x.split(':')[0], unhx(x.split(':')[1])) for x in ticks.split(',')]
        return {'kind': kind, 'payload': payload, 'ticks': t}
    except Exception as e:
        return {'raw': l}

# ---------------------------------------------------------------- C01 / C03
def gen_histories(rng, n, **kw):
    cases = []
    stats = {}
    for i in range(n):
        g = programs.ProgGen(rng, **kw)
        texts = g.history()
        c = Case('h%d' % i, meta={'texts': texts})
        for t in texts:
            c.eval(programs.render_text(t))
            c.vars(g.all_vars())
        cases.append(c)
        for k, v in g.stats.items(): stats[k] = stats.get(k, 0) + v
    return cases, stats

def check_C01(tier, seed):
    res = Result('C01', tier, seed); res.pending = []
    gate = proof_gate('C01')
    core.build_model(); core.build_impl()
    rng = random.Random(seed)
    n = tier_n(tier, 1500, 40000)
    cases, stats = gen_histories(rng, n)
    # recursive definitions (self-calls in and out of tail position, cond clauses without body, &optional / &rest)
    nrec = tier_n(tier, 500, 8000)
    for i in range(nrec):
        if i < len(CANON_REC): d = CANON_REC[i]
        else:
            g = TailGen(rng, 'f', rng.choice(['req', 'req', 'opt', 'rest']))
            d = g.defun(rng.choice([1, 2, 3, 4]))
        c = Case('r%d' % i, meta={'texts': [render(d)]})
        c.eval('(setq g 0) ' + render(d))
        for nn in rng.sample([0, 1, 2, 3, 5, 8, 13], 4):
            c.eval('(f %d 0)' % nn); c.vars(['n', 'acc', 'm', 'k', 'g'])
        cases.append(c)
    stats['recursive_definitions'] = nrec
    # scope of the binding forms: the initial-value / list / count expression of a binder is evaluated in the scope OUTSIDE the
    # binding it initialises, also when it reads a variable of the same name (directly or through a function)
    scope = [("(let ((x '(1 2 3)) (sum 0)) (dolist (x x sum) (setq sum (+ sum (tick 1 x)))))", '6'), ("(let ((x '(0 1 2))) (dolist (x (cdr x)) (tick 1 x)) x)", '(0 1 2)'),
             ("(let ((i 3) (acc nil)) (dotimes (i i) (setq acc (cons (tick 1 i) acc))) (list acc i))", '((2 1 0) 3)'), ("(let ((i 2)) (dotimes (i (+ i 1) i) (tick 1 i)))", '3'),
             ("(setq items '(a b)) (defun get-items () items) (let ((r nil)) (dolist (items (get-items)) (setq r (cons (tick 1 items) r))) (list r items))", '((b a) (a b))'),
             ("(setq cnt 2) (defun get-cnt () cnt) (let ((r 0)) (dotimes (cnt (get-cnt)) (setq r (+ r 10 (tick 1 cnt)))) (list r cnt))", '(21 2)'),
             ("(setq x 5) (let* ((x (+ x 1)) (y (* x 2))) (list x y))", '(6 12)'), ("(setq x 5) (defun rd () x) (let ((x (+ (rd) 1))) (list x (rd)))", '(6 6)'),
             ("(setq v 1) (defun f (v) (list v (g))) (defun g () v) (list (f (+ v 1)) v)", '((2 2) 1)'), ("(setq l '(1 2)) (dolist (e l) (setq l (cons e l))) l", '(2 1 1 2)'),
             ("(let ((n 3) (out nil)) (dotimes (k n) (setq n 10) (setq out (cons k out))) (list out n))", '((2 1 0) 10)'),
             ("(setq x '(1 2)) (funcall (lambda (x) (dolist (x x) (tick 1 x)) x) '(7 8))", '(7 8)'),
             # degenerate but well-formed core forms (D47, D48, D49: repaired)
             ("(list (and) (and 1) (and 1 nil 2) (or) (or nil 2))", '(t 1 nil nil 2)'), ("(let ((i 0)) (list (while (< i 3) (setq i (+ i 1))) i (while nil 5)))", '(nil 3 nil)'),
             ("(setq n49 0) (list (let ((x (setq n49 (+ n49 1))))) (let* ((x 1) (y (setq n49 (+ n49 x))))) (let ()) n49)", '(nil nil nil 2)'),
             ("(let ((x 1)) (when-let ((x (+ x 1)) (y (+ x 1))) (list x y)))", '(2 3)'), ("(let ((x 1)) (if-let* ((x (+ x 1)) (y (+ x 1))) (list x y)))", '(2 3)')]
    sc_cases = []
    for j, (text, want) in enumerate(scope):
        c = Case('sc%d' % j, meta={'texts': [text]}); c.eval(text); c.vars(['x', 'i', 'items', 'cnt', 'l', 'v'])
        cases.append(c); sc_cases.append((c, text, want))
    impl, model, dis = differential(res, cases)
    for c, text, want in sc_cases:
        ls = impl.get(c.cid, [])
        got = None
        if ls:
            _, kind_, payload_, _ = core.parse_line(ls[0]); got = unhx(payload_) if kind_ == 'V' else kind_
        if got != want:
            res.violation('scope', {'program': text, 'expected': want, 'got': got, 'why': 'the initial-value / list / count expression of a binding form is not evaluated in the scope outside that binding'})
    nontriv = set()
    for c in cases:
        for l in impl.get(c.cid, []):
            idx, kind, payload, ticks = core.parse_line(l)
            if kind in ('V', 'E') and ticks not in ('-', None):
                nontriv.add((kind, payload, ticks))
    res.cov['distinct_nontrivial'] = len(nontriv)
    res.cov['rule'] = ('random histories (1-4 texts: definitions, then programs) over the core forms from a typed grammar, '
                       'sub-expressions wrapped in (tick ID e); implementation and extracted Coq model compared on value/error class, '
                       'tick log and all six program variables after every text; plus generated self-recursive definitions (tail and non-tail self-calls, body-less cond clauses, &optional / &rest) called with several arguments; non-trivial = distinct (outcome, tick log) with a non-empty log')
    res.cov['generator_distribution'] = stats
    res.cov['samples'] = sample_cases(cases)
    replay_known(res, 'C01')
    for d in res.pending:
        res.violation('disagreement', d, no_input=not oracle_confirms(d))
    return res.finish(gate)

def oracle_confirms(d):
    """The model provably has the property; an implementation answer that differs from it on an
    observable the property speaks about (value, error class, order of effects, variable state) is the
    failing input itself."""
    return d.get('why') == 'differ'

CHECKS = {'C01': check_C01}

# ---------------------------------------------------------------- C03
BINDERS = {'let', 'let*', 'dolist', 'dotimes', 'lambda', 'defun', 'defmacro'}

def ticks_under_binders(x, under=False, acc=None):
    from .gen.sexp import Wrap, Dot
    if acc is None: acc = set()
    if isinstance(x, Wrap): ticks_under_binders(x.x, under, acc)
    elif isinstance(x, Dot):
        for i in x.items: ticks_under_binders(i, under, acc)
        ticks_under_binders(x.tail, under, acc)
    elif isinstance(x, (list, tuple)) and x:
        if x[0] == 'tick' and len(x) == 3 and under: acc.add(x[1])
        u = under or (isinstance(x[0], str) and x[0] in BINDERS)
        for i in x: ticks_under_binders(i, u, acc)
    return acc

def vars_depth_oracle(line):
    """Top level, after a request: every program variable has at most its global binding."""
    idx, kind, payload, _ = core.parse_line(line)
    bad = []
    if kind != 'VARS': return bad
    for a in payload.split(';'):
        if not a: continue
        name, rest = a.split('=')
        depth = int(rest.split(':')[0])
        if depth > 1: bad.append((unhx(name), depth))
    return bad

def check_C03(tier, seed):
    res = Result('C03', tier, seed); res.pending = []
    gate = proof_gate('C03')
    core.build_model(); core.build_impl()
    rng = random.Random(seed)
    n = tier_n(tier, 250, 6000)
    maxk = tier_n(tier, 10, 40)
    hist = []; allvars = []
    stats = {}
    for i in range(n):
        g = programs.ProgGen(rng, tick_p=0.5, err_p=0.01)
        texts = g.history(ntexts=rng.choice([1, 2]))
        hist.append(texts); allvars.append(g.all_vars())
        for k, v in g.stats.items(): stats[k] = stats.get(k, 0) + v
    # phase 1: fault-free, to learn the number of probe points of every request
    base = []
    for i, texts in enumerate(hist):
        c = Case('b%d' % i)
        for t in texts: c.eval(programs.render_text(t))
        base.append(c)
    impl0 = core.run_side(core.TLIMPL_DEBUG, base, announce=True)
    cases = []
    crossing = 0
    for i, texts in enumerate(hist):
        lines = impl0.get('b%d' % i, [])
        under = set()
        for t in texts: ticks_under_binders(t, False, under)
        for r, t in enumerate(texts):
            if r >= len(lines): break
            _, kind, payload, ticks = core.parse_line(lines[r])
            tl = [] if ticks in ('-', '?', None) else ticks.split(',')
            nt = len(tl)
            ks = list(range(1, nt + 1))
            if len(ks) > maxk: ks = sorted(rng.sample(ks, maxk))
            for k in ks:
                c = Case('h%d_r%d_k%d' % (i, r, k))
                for r2, t2 in enumerate(texts):
                    c.failat(k if r2 == r else None)
                    c.eval(programs.render_text(t2))
                    c.vars(allvars[i])
                # follow-up request: reads every variable
                c.failat(None)
                c.eval('(list ' + ' '.join("(if (boundp '%s) %s 'unbound)" % (v, v) for v in allvars[i]) + ')')
                c.meta = {'under': int(tl[k - 1].split(':')[0]) in under}
                cases.append(c)
    # arity errors raised while the parameters are being bound, on every call path (evaluating and not): the
    # parameters must not stay bound.  p q o1 more hold known global values before the failing request.
    plists = ['(p)', '(p q)', '(p &optional q)', '(p q &optional o1)', '(p q &rest more)', '(p &optional q &rest more)', '(&optional p q)', '()']
    arglists = ['', '1', '1 2', '1 2 3', '1 2 3 4']
    avars = ['p', 'q', 'o1', 'more']
    na = 0
    for pl in plists:
        for al in arglists:
            lst = "'(" + al + ")"
            paths = ["((lambda %s (list p)) %s)" % (pl, al), "(funcall (lambda %s 1) %s)" % (pl, al), "(defun af %s 1) (af %s)" % (pl, al), "(defun af %s 1) (funcall 'af %s)" % (pl, al),
                     "(defmacro am %s 1) (eval '(am %s))" % (pl, al), "(defmacro am %s 1) (macroexpand '(am %s))" % (pl, al),
                     # a self tail call (trampoline bounce) with these arguments, entered with a valid argument list
                     "(setq cnt 0) (defun af %s (setq cnt (1+ cnt)) (if (> cnt 1) 'done (af %s))) (af %s)" % (pl, al, ' '.join('1' for w in pl.strip('()').split('&')[0].split()))]
            if al in ('1', '1 2'):
                paths += ["(mapcar (lambda %s 1) %s)" % (pl, lst), "(seq-filter (lambda %s t) %s)" % (pl, lst), "(seq-find (lambda %s t) %s)" % (pl, lst),
                          "(seq-reduce (lambda %s 1) %s 0)" % (pl, lst), "(sort (list 3 1 2) (lambda %s t))" % pl, "(defun af %s 1) (mapcar 'af %s)" % (pl, lst),
                          "(assoc 1 '((1 . 2)) (lambda %s t))" % pl]
            for pth in paths:
                c = Case('ar%d' % na); na += 1
                c.eval("(setq p 10) (setq q 20) (setq o1 30) (setq more 40)")
                c.eval(pth); c.vars(avars)
                c.eval("(list p q o1 more)")
                c.meta = {'under': False}
                cases.append(c)
    binders = ["(let ((p 1) (q . 5)) p)", "(let* ((p 1) (q . 5)) p)", "(let ((p 1) 5) p)", "(let ((p 1) (q 1 2)) p)", "(let* ((p 1) ((q) 2)) p)", "(let ((p 1) (t 2)) p)", "(let ((p 1) (:k 2)) p)",
               "(let ((p 1) . 5) p)", "(let* ((p 1) (q (nofn))) p)", "(let ((p 1) (q 2) (o1 . 3)) p)", "(let* ((p 1) (q p) more (o1 . 3)) p)", "(let ((p 1)) (let ((q 2) (o1 . 3)) q))",
               "(dolist (p '(1 2) . 3) p)", "(dolist (p (nofn)) p)", "(dolist (p '(1 . 2)) (car p))", "(dotimes (p 'x) p)", "(dotimes (p 2 . 3) p)", "(dotimes (p 2) (let ((q 1) (o1 . 2)) q))",
               "(dotimes (p 2 (car p)) p)", "(dotimes (p 2 (nofn)) 1)", "(dolist (p '(1 2) (nofn)) 1)", "(dolist (p '(1) (car 5)) p)", "(dotimes (p 0 (nofn)))", "(let ((q 1)) (dotimes (p 1 (car q)) (setq q 5)))",
               "(if-let ((p 1) (q . 2)) p)", "(when-let ((p 1) (q (nofn))) p)", "(if-let* ((p 1) (q 1 2)) p)", "(while-let ((p 1) (q . 2)) p)",
               "(funcall (lambda (p) (let ((q 1) (o1 . 2)) q)) 1)", "(mapcar (lambda (p) (let* ((q p) (more . 2)) q)) '(1 2))"]
    for b_ in binders:
        c = Case('ar%d' % na); na += 1
        c.eval("(setq p 10) (setq q 20) (setq o1 30) (setq more 40)")
        c.eval(b_); c.vars(avars)
        c.eval("(list p q o1 more)")
        c.meta = {'under': False}
        cases.append(c)
    res.cov['arity_cases'] = na
    # definitions carried out at run time for a symbol that has only a temporary binding (let variable, parameter, loop
    # variable) and no global value: the definition becomes the global value UNDER the temporary binding, which is undone
    rt = [("(let ((zq 17)) (eval (list 'defun 'zq nil 42)) (list zq (zq)))", 'zq'), ("(funcall (lambda (cb) (eval (list 'defun 'cb nil 7)) (list cb (cb))) 5)", 'cb'),
          ("(dolist (dv '(1 2)) (eval (list 'defun 'dv nil 9)))", 'dv'), ("(dotimes (dt 2) (eval (list 'defun 'dt nil 9)))", 'dt'), ("(let ((ze 1)) (eval (list 'defun 'ze nil 1)) (nofn))", 'ze'),
          ("(let ((zl 1)) (let ((zl 2)) (eval (list 'defun 'zl '(a) 'a))) (list zl (zl 3)))", 'zl'), ("(defmacro define-getter (name value) (list 'defun name nil value)) (let ((answer 17)) (define-getter answer 42) (list answer (answer)))", 'answer'),
          ("(let* ((zs 1) (zt (eval (list 'defun 'zs nil 2)))) (list zs (zs)))", 'zs'), ("(if-let ((zi 5)) (progn (eval (list 'defun 'zi nil 6)) (list zi (zi))))", 'zi'),
          ("(let ((zg 1)) (eval (list 'setq 'zg 2)) (eval (list 'defun 'zg nil 3)) zg)", 'zg')]
    rt_prescribed = {'zq': ('(17 42)', '42'), 'cb': ('(5 7)', '7'), 'dv': ('nil', '9'), 'dt': ('nil', '9'), 'ze': ('E', '1'), 'zl': ('(1 3)', '1'), 'answer': ('(17 42)', '42'), 'zs': ('(1 2)', '2'), 'zi': ('(5 6)', '6'), 'zg': ('2', '3')}
    for j, (text, var) in enumerate(rt):
        c = Case('rt%d' % j)
        c.eval(text); c.vars([var]); c.eval("(boundp '%s)" % var); c.eval(var); c.eval('(%s 1)' % var if var == 'zl' else '(%s)' % var); c.vars([var])
        c.meta = {'under': False}
        cases.append(c)
    impl, model, dis = differential(res, cases)
    # model-free oracle for the run-time definitions: the value of the request and, afterwards, the call of the defined function
    # as the dynamic-binding semantics prescribes them; deviations of exactly this class are the listed finding D39
    kf_rt = 0; kf_rt_ex = None
    for c in cases:
        if not c.cid.startswith('rt'): continue
        j = int(c.cid[2:]); text, var = rt[j]
        ls = impl.get(c.cid, [])
        if len(ls) < 5: continue
        def val(l):
            _, kind_, payload_, _ = core.parse_line(l); return unhx(payload_) if kind_ == 'V' else kind_
        got = (val(ls[0]), val(ls[4]))
        if got != rt_prescribed[var]:
            kf_rt += 1; kf_rt_ex = kf_rt_ex or '%s => %s, then (%s) => %s; prescribed %s, then %s' % (text, got[0], var, got[1], rt_prescribed[var][0], rt_prescribed[var][1])
    replay_known(res, 'C03')
    classifier_hits(res, 'C03', 'c03_definition_under_temporary', kf_rt, kf_rt_ex)
    # thousands of live bindings of one variable (non-tail recursion through parameters, let and dotimes), ending normally and
    # with an error at the bottom: afterwards the variables are unbound again
    dcs = []
    for j, (defs, call) in enumerate([("(defun down (n) (if (< n 1) 0 (+ 1 (down (- n 1)))))", "(down 2500)"), ("(defun downe (n) (if (< n 1) (nofn) (+ 1 (downe (- n 1)))))", "(downe 2500)"),
                                      ("(defun nest (n) (let ((k n)) (if (< k 1) 0 (+ 1 (nest (- k 1))))))", "(nest 2000)"),
                                      ("(defun loops (n) (let ((k n) (r 0)) (dotimes (i 1) (setq r (if (< k 1) 0 (+ 1 (loops (- k 1)))))) r))", "(loops 1800)")]):
        c = Case('dp%d' % j); c.eval(defs); c.eval(call); c.vars(['n', 'k', 'i', 'r']); c.eval("(list (boundp 'n) (boundp 'k) (boundp 'i) (boundp 'r))")
        dcs.append(c)
    core.build_impl(release=True)
    dout = core.run_side(core.TLIMPL_RELEASE, dcs, announce=True, env={'TL_STACK_MB': '1024'}, timeout=600)
    for c in dcs:
        ls = dout.get(c.cid, [])
        res.cov['evaluations'] += len(ls)
        ok_ = len(ls) == 4 and core.parse_line(ls[1])[1] in ('V', 'E') and unhx(core.parse_line(ls[3])[2]) == '(nil nil nil nil)' and not vars_depth_oracle(ls[2])
        if not ok_:
            res.violation('stale-binding', {'requests': c.readable(), 'lines': [decode_line(l) for l in ls], 'oracle': 'after deep recursion (thousands of live bindings of one variable) every variable is unbound again'})
    res.cov['runtime_definition_cases'] = len(rt)
    # model-free oracle on the implementation
    byid = {c.cid: c for c in cases}
    nbad = 0
    for c in cases:
        if not c.cid.startswith('ar'): continue
        ls = impl.get(c.cid, [])
        if len(ls) >= 4 and nbad < 10:
            _, kind, payload, _ = core.parse_line(ls[3])
            if kind != 'V' or unhx(payload) != '(10 20 30 40)':
                nbad += 1
                res.violation('stale-binding', {'requests': c.readable(), 'line': decode_line(ls[3]), 'oracle': 'a call that fails or succeeds leaves the global values of its parameter symbols visible',
                                                'raw_case': c.text()})
    distinct = set()
    for c in cases:
        ls = impl.get(c.cid, [])
        for l in ls:
            bad = vars_depth_oracle(l)
            if bad and nbad < 10:
                nbad += 1
                res.violation('stale-binding', {'requests': c.readable(), 'stale': bad, 'line': decode_line(l),
                                                'oracle': 'after a top-level request every variable has depth <= 1',
                                                'raw_case': c.text()})
        if c.meta.get('under') and any(core.parse_line(l)[1] == 'E' for l in ls):
            distinct.add(tuple(ls))
    res.cov['distinct_nontrivial'] = len(distinct)
    res.cov['rule'] = ('random histories; every request is re-run once per probe point k (the k-th (tick ..) evaluation fails), '
                       'up to %d points per request; after every request the binding depth and values of the six program variables '
                       'are read back (boundp/get/unset/set_scope) and a follow-up request reads them; oracle: depth <= 1 at top level, '
                       'and the whole transcript equals the extracted model; non-trivial = distinct transcripts whose injected failure '
                       'was lexically inside let/let*/dolist/dotimes/lambda/defun' % maxk)
    res.cov['generator_distribution'] = stats
    res.cov['histories'] = n
    res.cov['samples'] = sample_cases(cases)
    for d in res.pending:
        res.violation('disagreement', d, no_input=not oracle_confirms(d))
    return res.finish(gate)

CHECKS['C03'] = check_C03

# ---------------------------------------------------------------- C02
def check_C02(tier, seed):
    from .gen import calls
    res = Result('C02', tier, seed); res.pending = []
    gate = proof_gate('C02')
    core.build_model(); core.build_impl()
    rng = random.Random(seed)
    g = calls.CallGen(rng)
    cases = []
    obs = calls.PNAMES + ['fn', 'k', 'p', 'q']
    def add(texts, tag):
        c = Case('%s%d' % (tag, len(cases)))
        for t in texts:
            c.eval(programs.render_text(t)); c.vars(obs)
        cases.append(c)
    # exhaustive over shapes x argument counts x callee kind x route
    maxreq, maxopt = tier_n(tier, 2, 3), tier_n(tier, 1, 2)
    nex = 0
    for nreq in range(maxreq + 1):
        for nopt in range(maxopt + 1):
            for rest in (0, 1):
                for argc in range(0, 6):
                    for kind in ('defun', 'lambda', 'closure', 'macro'):
                        for route in (('direct',) if kind == 'macro' else ('direct', 'funcall', 'funcall-sharp')):
                            add(g.user_callee_case(nreq, nopt, rest, argc, kind, route), 'u'); nex += 1
                            if argc >= 2:
                                add(g.user_callee_case(nreq, nopt, rest, argc, kind, route, atoms=True), 'ua'); nex += 1
                        if argc == 1 and kind != 'macro':
                            for route in ('mapcar', 'seq-map', 'seq-filter', 'seq-find'):
                                add(g.user_callee_case(nreq, nopt, rest, 1, kind, route), 'us'); nex += 1
    for _ in range(tier_n(tier, 1200, 30000)): add(g.builtin_case(), 'b')
    for _ in range(tier_n(tier, 1200, 30000)): add(g.higher_order_case(), 'h')
    for _ in range(tier_n(tier, 300, 6000)): add(g.tailrec_case(), 't')
    impl, model, dis = differential(res, cases)
    distinct = set()
    for c in cases:
        ls = impl.get(c.cid, [])
        if len(ls) >= 3:
            _, kind, payload, ticks = core.parse_line(ls[2])
            if ticks not in ('-', None): distinct.add((kind, payload, ticks))
    res.cov['distinct_nontrivial'] = len(distinct)
    res.cov['exhaustive_shape_cases'] = nex
    res.cov['exhaustive'] = False
    res.cov['rule'] = ('exhaustive: parameter shapes (required 0..%d, &optional 0..%d, &rest 0/1) x 0..5 arguments x {defun, lambda, closure, macro} x '
                       '{direct, funcall, funcall #\\\'}; random: %d built-in/host calls and %d higher-order calls (mapcar, seq-*, sort, assoc/alist-get testfn, funcall) '
                       'over element kinds symbol/list/number/string/quoted form; every argument is (tick i e), some read or assign a variable named like a parameter; each shape also with atom-only arguments (bare variables named like parameters, constants); '
                       'callee bodies tick the list of their parameters; compared: value/error class, tick log, variables; non-trivial = distinct call transcripts with a non-empty log'
                       % (maxreq, maxopt, tier_n(tier, 1200, 30000), tier_n(tier, 1200, 30000)))
    res.cov['samples'] = sample_cases(cases[::max(1, len(cases) // 3)])
    # order oracle, independent of the model: a function-like built-in applied to (tick 1 e1) ... (tick n en)
    # logs 1..n in this order when it returns a value, and a prefix 1..k when an argument or the call fails
    special = {'and', 'or', 'if', 'progn', 'when', 'unless', 'setq'}
    ocases = []
    for name, sig in calls.BUILTINS:
        if name in special: continue
        for rep in range(tier_n(tier, 4, 40)):
            n = len(sig) if rep % 4 else max(1, len(sig) + rng.choice([-1, 1]))
            args = [['tick', i + 1, calls.arg_of_kind(rng, sig[min(i, len(sig) - 1)])] for i in range(n)]
            for route in ('direct', 'funcall'):
                call = ([name] + args) if route == 'direct' else (['funcall', Q(name)] + args)
                c = Case('o%d' % len(ocases), meta={'n': n, 'name': name, 'exact': n <= len(sig)})
                c.eval(programs.render_text([['setq', 'htab', ['make-hash-table']]]))
                c.eval(programs.render_text([call]))
                ocases.append(c)
    oimpl = core.run_side(core.TLIMPL_DEBUG, ocases, announce=True)
    nord = 0
    for c in ocases:
        ls = oimpl.get(c.cid, [])
        if len(ls) < 2: continue
        _, kind, payload, ticks = core.parse_line(ls[1])
        ids = [] if ticks in ('-', None, '?') else [int(x.split(':')[0]) for x in ticks.split(',')]
        nord += 1
        ok = ids == list(range(1, len(ids) + 1)) and (kind != 'V' or not c.meta['exact'] or len(ids) == c.meta['n'])
        if kind in ('A', 'H', 'P'): ok = False
        if not ok:
            res.violation('order-oracle', {'requests': c.readable(), 'impl': decode_line(ls[1]),
                                           'why': 'arguments of a function-like built-in not evaluated once each, left to right'})
    res.cov['order_oracle_cases'] = nord
    res.cov['evaluations'] += nord
    res.cov['rule'] += ('; order oracle (implementation only): %d calls of every function-like built-in, direct and through funcall, with (tick i ..) '
                        'arguments: the log must be 1..n in order for a value (surplus arguments beyond the signature, which tulisp ignores, excepted) and a prefix for an error' % nord)
    for d in res.pending:
        res.violation('disagreement', d, no_input=not oracle_confirms(d))
    return res.finish(gate)

CHECKS['C02'] = check_C02

# ---------------------------------------------------------------- C08
SIG_ALPHABET = "()'\".,@#;\\-1a \n`"

def sweep_cases(alphabet, length):
    cases = []
    if length == 0:
        c = Case('sw0'); c.lines.append('sweep %s 0 -1' % hx(alphabet)); c.nreq = 1
        return [c]
    for f in range(len(alphabet)):
        c = Case('sw%d_%d' % (length, f))
        c.lines.append('sweep %s %d %d' % (hx(alphabet), length, f)); c.nreq = 1
        cases.append(c)
    return cases

def sweep_table(out):
    t = {}
    for cid, lines in out.items():
        for l in lines:
            p = l.split(' ')
            if len(p) >= 5 and p[2] == 'SW':
                t[p[3]] = ' '.join(p[4:])
            elif len(p) >= 3 and p[2] in ('A', 'H'):
                t['?abort:' + cid] = l
    return t

def token_soup(rng):
    pieces = ['(', ')', "'", '`', ',', ',@', "#'", '#', '.', ' . ', '"', '\\', ';c\n', ';', '\n', ' ', '\t', '-', '--', '-.', '1', '12', '-3',
              '1.5', '.5', '1.', '-.5', '99999999999999999999', '-99999999999999999999', '9223372036854775807', '9223372036854775808',
              '-9223372036854775808', '-9223372036854775809', '1e5', '1.5.2', 'a', 'nil', 't', 'defun', 'foo-bar', ':k', '"s"', '"a\\"b"',
              '"\\n"', '"\\q"', '"\\', 'é', '漢', '\U0001F600', '+1', '1-', '(defun', '(defmacro m (x)', '(a . b)', '(a .', '( . )',
              '0000000000000000000000001', '1' * 25 + '.5', '.' , '..', '-1.', '\r', '1,2', "a'b", 'a(b', '(', '((', '))']
    return ''.join(rng.choice(pieces) for _ in range(rng.choice([1, 2, 3, 4, 6, 9, 14])))

def check_C08(tier, seed):
    res = Result('C08', tier, seed); res.pending = []
    gate = proof_gate('C08')
    core.build_model(); core.build_impl(); core.build_impl(release=True)
    rng = random.Random(seed)
    maxlen = tier_n(tier, 4, 5)
    cases = []
    for L in range(0, maxlen + 1): cases += sweep_cases(SIG_ALPHABET, L)
    total = 0
    nonpanic_distinct = set()
    for binary, label in ((core.TLIMPL_RELEASE, 'release'), (core.TLIMPL_DEBUG, 'debug')):
        if label == 'debug' and tier == 'quick':
            dcases = [c for c in cases if not c.cid.startswith('sw%d_' % maxlen)]   # debug sweep one length shorter
        else:
            dcases = cases
        impl = sweep_table(core.run_side(binary, dcases, announce=True, timeout=1500, stall=30))
        model = sweep_table(core.run_side(core.TLMODEL, dcases, timeout=1500))
        total += len(impl)
        bad = 0
        for k, v in impl.items():
            mv = model.get(k)
            if v.startswith('ok') or v == 'err': nonpanic_distinct.add(v[:40])
            if k.startswith('?abort') or v == 'panic' or v.startswith('err-other'):
                if bad < 5:
                    res.violation('reader-panic', {'text': unhx(k) if not k.startswith('?') else k, 'impl': v, 'profile': label,
                                                   'oracle': 'reading must yield a program or a parse error'})
                bad += 1
            elif mv != v:
                if bad < 5:
                    res.violation('reader-disagreement', {'text': unhx(k), 'impl': v if not v.startswith('ok ') else 'ok ' + unhx(v[3:]),
                                                          'model': mv if not (mv or '').startswith('ok ') else 'ok ' + unhx(mv[3:]),
                                                          'profile': label, 'correspondence': 'Reader.read_ax vs verif_parse'},
                                  no_input=False)
                bad += 1
        for k in model:
            if k not in impl and bad < 5:
                res.violation('reader-missing', {'text': unhx(k) if not k.startswith('?') else k, 'profile': label}); bad += 1
    res.cov['exhaustive'] = True
    res.cov['exhaustive_space'] = 'all strings of length 0..%d over the %d syntactically significant characters %r' % (maxlen, len(SIG_ALPHABET), SIG_ALPHABET)
    # prefixes of valid programs and token soups, through the parse request
    pcases = []
    g = programs.ProgGen(rng)
    texts = []
    for _ in range(tier_n(tier, 30, 400)):
        for t in g.history(): texts.append(programs.render_text(t))
    k = 0
    for t in texts:
        step = max(1, len(t) // tier_n(tier, 60, 400))
        c = Case('pre%d' % k); k += 1
        for cut in range(0, len(t) + 1, step): c.parsex(t[:cut])
        pcases.append(c)
    for i in range(tier_n(tier, 200, 4000)):
        c = Case('soup%d' % i)
        for j in range(25):
            c.ctx(j); c.parsex(token_soup(rng))
        pcases.append(c)
    # definitions are carried out while reading, wherever they stand (quoted, in a dead branch, in data): every
    # shape of name, parameter list and body, also cut short
    rt = []
    plists = ['(&rest)', '(a &rest)', '(&optional)', '(&optional &rest)', '(&rest &optional x)', '(&rest a b)', '(&rest &rest a)', '(a . b)', '5', '((a))', '(a a)', '()', 'nil',
              '("s")', '(:k)', '(t)', '(nil)', '(a &optional)', '(&optional a &rest)', '(&rest . a)', "('a)", '(a 1)']
    for head in ('defun', 'defmacro', 'lambda'):
        for pl in plists:
            for form in ('(%s rtf %s 1)' % (head, pl), '(%s rtf %s)' % (head, pl)) if head != 'lambda' else ('(%s %s 1)' % (head, pl),):
                for ctxt in ('%s', "'%s", '(if nil %s 1)', "(list '%s)", '`(%s)', '(progn (quote %s) 2)'):
                    rt.append(ctxt % form)
                rt.append(form[:-1]); rt.append(form[:-2])
    # dotted forms in tail position of a definition (the tail-call marking walks them while the text is read)
    for body_ in ['(progn . 5)', '(let . x)', '(let* ((y 1)) . y)', '(if x 1 . 2)', '(if x . 1)', '(cond ((> x 1) . t))', '(cond (x 1) . 2)', '(cond . x)', '(progn (if x (progn . x) . 3))', '(let ((y x)) (cond (y . y)))',
                  '(rtf . 1)', '(rtf x . 2)', '(when x . 1)', '(unless . x)', '(progn 1 . 2)', '(if)', '(cond ())', '(let)']:
        for head in ('defun', 'defmacro'):
            if head == 'defmacro' and body_.startswith('(rtf'): continue      # a macro that expands into a call of itself never stops expanding
            rt += ['(%s rtf (x) %s)' % (head, body_), "'(%s rtf (x) %s)" % (head, body_), '(%s rtf (x) 1 %s)' % (head, body_), '(%s rtf (x) . %s)' % (head, body_)]
    for nm in ('5', '(g)', 'nil', '"s"', ':k', ''):
        for head in ('defun', 'defmacro'):
            rt += ['(%s %s (a) a)' % (head, nm), "'(%s %s (a) a)" % (head, nm), '(%s %s)' % (head, nm), '(%s)' % head, '(%s . %s)' % (head, nm or 'x')]
    for i in range(0, len(rt), 25):
        c = Case('rt%d' % i)
        for j, tx in enumerate(rt[i:i + 25]):
            c.ctx(j); c.parsex(tx)
        pcases.append(c)
    res.cov['read_time_definition_texts'] = len(rt)
    # the same reader behind load / eval-file: file contents incl. unusual first lines
    heads = ['', '#!', '#!/usr/bin/tulisp', '#!/usr/bin/tulisp\n', '#', ';', ';; -*- lexical-binding: t -*-', '\ufeff', '\n', '\r\n', '#!\n(+ 1 2)', '"', '(', ')']
    for i in range(tier_n(tier, 60, 1500)):
        c = Case('file%d' % i)
        body = rng.choice(heads) + (token_soup(rng) if rng.random() < 0.7 else '(list 1 "a\r\nb" 2)')
        c.file('f.el', body); c.load('f.el')
        c.eval('(load "f.el")')
        pcases.append(c)
    # deep nesting up to the stated bound of 200 levels
    c = Case('deep')
    for d in (50, 100, 150, 200):
        c.parse('(' * d + 'a' + ')' * d); c.parse("'" * d + 'a'); c.parse('(' * d); c.parse('`' * d + ',' * d + 'a')
    pcases.append(c)
    # long flat texts: nesting is what may cost stack, length may not (lists, strings, many top-level forms; closed and cut short)
    c = Case('long')
    for n_ in (3000, 20000):
        flat = ' '.join(str(i % 97) for i in range(n_))
        c.parse("'(" + flat + ')'); c.parse("'(" + flat); c.parse("'((" + flat + ') . ' + 'z)'); c.parse('(list ' + ' '.join('"s%d"' % (i % 50) for i in range(n_)) + ')')
        c.parse(' '.join('(f %d)' % i for i in range(n_ // 4))); c.parse('"' + 'ab\\n' * n_ + '"'); c.parse("'(" + ' '.join("'a" for _ in range(n_)) + ')')
    longcase = c
    for binary, label in ((core.TLIMPL_DEBUG, 'debug'), (core.TLIMPL_RELEASE, 'release')):
        lo = core.run_side(binary, [longcase], announce=True, stall=60, env={'TL_STACK_MB': '2'}, timeout=900).get('long', [])
        total += len(lo)
        kinds_ = [core.parse_line(l)[1] for l in lo]
        if len(lo) < longcase.nreq or any(k_ in ('A', 'H', 'P') for k_ in kinds_):
            res.violation('reader-panic', {'text': 'long flat texts (3 000 and 20 000 elements: lists closed / cut short / dotted, strings, top-level forms) on a 2 MiB stack', 'profile': label,
                                           'outcomes': kinds_, 'why': 'the reader aborted, hung or panicked on a long text of nesting depth <= 3'})
    for binary, label in ((core.TLIMPL_DEBUG, 'debug'), (core.TLIMPL_RELEASE, 'release')):
        impl = core.run_side(binary, pcases, announce=True, stall=30)
        model = core.run_side(core.TLMODEL, pcases)
        def obs(kind, payload, ticks):
            # error kinds are not compared: a read-time definition may fail before a later parse error is seen
            if kind == 'PARSE' and payload.startswith('err'): return ('PARSE', 'err', None)
            if kind == 'E': return ('E', '', None)
            return (kind, payload, None)
        ncmp, nskip, dis = core.compare(pcases, impl, model, observe=obs)
        total += ncmp
        byid = {c.cid: c for c in pcases}
        for c in pcases:
            for l in impl.get(c.cid, []):
                _, kind, payload, _ = core.parse_line(l)
                if kind in ('A', 'H', 'P') or (kind == 'PARSE' and payload.startswith('panic')):
                    idx = core.parse_line(l)[0]
                    reqs = [r for r in c.readable() if r.startswith('parse')]
                    res.violation('reader-panic', {'text': reqs[idx].split(' ', 1)[1] if idx < len(reqs) else None, 'impl': l, 'profile': label})
                    break
                nonpanic_distinct.add(payload[:40])
        for d in dis[:5]:
            c = byid[d['case']]
            reqs = [r for r in c.readable() if r.startswith('parse')]
            d2 = dict(d); d2['text'] = reqs[d['idx']].split(' ', 1)[1] if d['idx'] < len(reqs) else None
            d2['impl_decoded'] = decode_line(d['impl']); d2['model_decoded'] = decode_line(d['model']); d2['profile'] = label
            res.violation('reader-disagreement', d2)
    res.cov['evaluations'] = total
    res.cov['distinct_nontrivial'] = len(nonpanic_distinct)
    res.cov['rule'] = ('exhaustive sweep of short strings (release; debug one length shorter in the quick tier), every ~%d-th prefix of generated valid programs, '
                       'token soups with over-long numbers / lone signs and dots / dangling quotes and escapes, nesting to 200 levels; both build profiles; '
                       'oracle: outcome is a parsed program or a ParsingError (no panic, abort, hang, other error kind); correspondence: forms and spans equal '
                       'to Reader.read_ax of the Coq model; distinct_nontrivial = distinct (prefix of) parse results' % tier_n(tier, 60, 400))
    res.cov['samples'] = ['(a .', '-.', '"abc\\', "#", ',@', '99999999999999999999'] + [token_soup(rng) for _ in range(3)]
    return res.finish(gate)

CHECKS['C08'] = check_C08

# ---------------------------------------------------------------- expression batches
def run_exprs(res, items, prelude=None, impl_bin=None, tag='e', obs_vars=None, per_case=1):
    """items: list of (text, meta). One fresh context per `per_case` expressions.
    Returns list of (text, meta, impl_decoded, model_decoded)."""
    cases = []
    for i in range(0, len(items), per_case):
        c = Case('%s%d' % (tag, i))
        for j, (t, meta) in enumerate(items[i:i + per_case]):
            if per_case > 1: c.ctx(j)
            if prelude: c.eval(prelude)
            c.eval(t)
        cases.append(c)
    impl, model, dis = differential(res, cases, impl_bin=impl_bin)
    out = []
    step = 2 if prelude else 1
    for i in range(0, len(items), per_case):
        cid = '%s%d' % (tag, i)
        il, ml = impl.get(cid, []), model.get(cid, [])
        for j, (t, meta) in enumerate(items[i:i + per_case]):
            k = j * step + (step - 1)
            out.append((t, meta, decode_line(il[k]) if k < len(il) else None, decode_line(ml[k]) if k < len(ml) else None))
    return out

# ---------------------------------------------------------------- C13
I64MAX, I64MIN = 2**63 - 1, -2**63

def lisp_num(v):
    from .gen.sexp import fmt_float
    if isinstance(v, float): return fmt_float(v)
    return str(v)

def parse_num_text(s):
    """Printed value -> ('int', v) | ('float', v) | None"""
    try:
        if re.fullmatch(r'-?\d+', s): return ('int', int(s))
        if s in ('inf', '-inf', 'NaN'): return ('float', float(s.replace('NaN', 'nan')))
        if re.fullmatch(r'-?\d*\.\d+|-?\d+\.\d*', s): return ('float', float(s))
    except Exception: pass
    return None

def ref_arith(op, args):
    """Reference (Python integers / IEEE doubles). Returns ('int',v) | ('float',v) | 'error' | None (no opinion)."""
    import math
    def isf(x): return isinstance(x, float)
    def chk(v): return ('int', v) if I64MIN <= v <= I64MAX else 'error'
    if any(not isinstance(a, (int, float)) or isinstance(a, bool) for a in args): return 'error'
    try:
        if op in ('+', '*', '-', '/'):
            if op == '-' and len(args) == 1: args = [0] + list(args)
            if op == '/' and len(args) == 1: args = [1] + list(args)
            acc = args[0]
            for b in args[1:]:
                if isf(acc) or isf(b):
                    a_, b_ = float(acc), float(b)
                    if op == '+': acc = a_ + b_
                    elif op == '-': acc = a_ - b_
                    elif op == '*': acc = a_ * b_
                    else:
                        if b_ == 0.0: return None          # error and +-inf/NaN are both accepted
                        acc = a_ / b_
                else:
                    if op == '+': acc = acc + b
                    elif op == '-': acc = acc - b
                    elif op == '*': acc = acc * b
                    else:
                        if b == 0: return 'error'
                        q = abs(acc) // abs(b)
                        acc = q if (acc >= 0) == (b >= 0) else -q
                    if not (I64MIN <= acc <= I64MAX): return 'error'
            if op == '/' and any((not isf(b)) and b == 0 for b in args[1:]): return 'error'
            if op == '/' and any(isf(b) and b == 0.0 for b in args[1:]): return None
            return ('float', acc) if isf(acc) else chk(acc)
        if op == 'mod':
            a, b = args
            if isf(a) or isf(b):
                if float(b) == 0.0: return None
                return ('float', math.fmod(float(a), float(b)) if False else float(a) - float(b) * math.floor(float(a) / float(b))) if False else None
            if b == 0: return 'error'
            return ('int', a % b)
        if op in ('1+', '1-'):
            a, = args
            if isf(a): return ('float', a + (1.0 if op == '1+' else -1.0))
            return chk(a + (1 if op == '1+' else -1))
        if op in ('max', 'min'):
            if any(isf(a) and math.isnan(a) for a in args): return None
            m = max(args) if op == 'max' else min(args)
            return ('num', m)
        if op in ('<', '<=', '>', '>='):
            if len(args) < 2: return 'error'
            if any(isf(a) and math.isnan(a) for a in args): return None
            import operator
            f = {'<': operator.lt, '<=': operator.le, '>': operator.gt, '>=': operator.ge}[op]
            return ('bool', all(f(x, y) for x, y in zip(args, args[1:])))
        if op == 'expt':
            a, b = args
            try: return ('float', math.pow(float(a), float(b)))
            except (OverflowError, ValueError): return None
        if op in ('fround', 'ftruncate'):
            a, = args
            if not isf(a): return 'error'
            if math.isinf(a) or math.isnan(a): return None
            if op == 'ftruncate': return ('float', math.copysign(float(math.trunc(a)), a))
            if abs(a - math.trunc(a)) == 0.5: return None        # exact ties excluded by the property
            # nearest integral float, computed exactly (|a| + 0.5 would itself be rounded by the hardware)
            from fractions import Fraction
            fa = Fraction(abs(a)); fl = fa.numerator // fa.denominator
            return ('float', math.copysign(float(fl + (1 if fa - fl > Fraction(1, 2) else 0)), a))
    except OverflowError:
        return None
    return None

def c13_mixed_big(op, args):
    """Known finding D22: mixed int/float comparison with |int| > 2^53."""
    return op in ('<', '<=', '>', '>=', 'max', 'min') and any(isinstance(a, float) for a in args) and \
        any(isinstance(a, int) and abs(a) > 2**53 for a in args)

def check_C13(tier, seed):
    import itertools, math
    res = Result('C13', tier, seed); res.pending = []
    gate = proof_gate('C13')
    core.build_model(); core.build_impl()
    rng = random.Random(seed)
    vals = [0, 1, -1, 2, -2, 7, -7, I64MAX, I64MAX - 1, I64MIN, I64MIN + 1, 2**53 + 1, -(2**53) - 1, 2**32, 3037000500, 3000000000, -4000000000, 4000000000, -3000000001,
            0.0, -0.0, 1.5, -1.5, 2.5, -2.5, 1e300, 0.1, 3.0, 9007199254740992.0]
    nary = ['+', '-', '*', '/', 'max', 'min', '<', '<=', '>', '>=']
    items = []
    def add(op, args):
        if op in ('max', 'min') and sum(1 for a in args if a == 0) > 1 and any(isinstance(a, float) and math.copysign(1, a) < 0 for a in args):
            return          # the result of f64::max/min on zeros of different sign is unspecified
        items.append(('(%s %s)' % (op, ' '.join(lisp_num(a) if isinstance(a, (int, float)) and not isinstance(a, bool) else render(a) for a in args)),
                      {'op': op, 'args': args}))
    for op in nary:
        for a in vals: add(op, [a])
        for a, b in itertools.product(vals, vals): add(op, [a, b])
    if tier == 'thorough':
        for op in nary:
            for t in itertools.product(vals[:18], repeat=3): add(op, list(t))
    for op in ('mod', 'expt'):
        for a, b in itertools.product(vals, vals): add(op, [a, b])
    for op in ('1+', '1-', 'fround', 'ftruncate'):
        for a in vals + [0.4999999999999999, 0.49999999999999994, -0.49999999999999994, 4503599627370497.0, -4503599627370497.0, 6755399441055745.0, 9007199254740991.0, 0.5, -0.5, 1.5, 2.5, 1e15 + 0.3, -0.7, 123456.789]: add(op, [a])
    for _ in range(tier_n(tier, 2500, 60000)):
        op = rng.choice(nary)
        n = rng.choice([3, 3, 4, 5])
        add(op, [rng.choice(vals) if rng.random() < 0.7 else rng.choice([rng.randint(-50, 50), rng.uniform(-9, 9), rng.randint(I64MIN, I64MAX)]) for _ in range(n)])
    # non-numbers in every position, including the single-argument call
    bad = [Str('a'), None, True, Q('s'), Q([1]), ':k']
    for op in nary + ['mod', 'expt', '1+', '1-', 'fround', 'ftruncate']:
        ar = 1 if op in ('1+', '1-', 'fround', 'ftruncate') else 2
        for b in bad:
            for pos in range(ar if ar == 1 else 3):
                n = ar if ar == 1 else rng.choice([1, 2, 3]) if op not in ('mod', 'expt') else 2
                args = [rng.choice([1, 2.5, 3]) for _ in range(n)]
                if pos < n: args[pos] = b
                else: continue
                add(op, args)
    rows = run_exprs(res, items, per_case=20)
    nv = 0
    known_hits = 0
    distinct = set()
    for text, meta, im, mo in rows:
        if im is None: continue
        op, args = meta['op'], meta['args']
        distinct.add((op, im['kind'], im['payload'] if im['kind'] == 'V' else ''))
        exp = ref_arith(op, args)
        if exp is None: continue
        got = 'error' if im['kind'] == 'E' else (parse_num_text(im['payload']) if im['kind'] == 'V' else im['kind'])
        ok = True
        if exp == 'error': ok = (got == 'error')
        elif exp[0] == 'bool':
            ok = im['kind'] == 'V' and im['payload'] == ('t' if exp[1] else 'nil')
        elif exp[0] == 'num':
            ok = isinstance(got, tuple) and got[1] == exp[1]
        elif exp[0] == 'int':
            ok = (got == ('int', exp[1]))
        elif exp[0] == 'float':
            ok = isinstance(got, tuple) and got[0] == 'float' and (got[1] == exp[1] or (math.isnan(got[1]) and math.isnan(exp[1]))) \
                 and (math.copysign(1, got[1]) == math.copysign(1, exp[1]) or got[1] != 0)
        if not ok:
            if c13_mixed_big(op, args):
                known_hits += 1
                continue
            nv += 1
            if nv <= 8:
                res.violation('numeric', {'expr': text, 'expected': str(exp), 'impl': im,
                                          'oracle': 'Python integers / IEEE doubles'})
    replay_known(res, 'C13')
    classifier_hits(res, 'C13', 'c13_mixed_big', known_hits, '(> 9007199254740993 9007199254740992.0) => nil')
    res.cov['distinct_nontrivial'] = len(distinct)
    res.cov['exhaustive'] = False
    res.cov['rule'] = ('all operators x all tuples of length 1-2 (thorough: 3 over the first 18 values) from %d boundary values (i64 limits and neighbours, 2^53+1, '
                       'signed zeros, halves, 1e300), random longer tuples, non-numbers in every position; oracle: Python integers and doubles '
                       '(overflow must be an error; exact ties of fround, NaN and float division by zero give no verdict); correspondence with the model '
                       'on value and type; non-trivial = distinct (operator, outcome)' % len(vals))
    res.cov['samples'] = [t for t, _, _, _ in rows[:3]] + [rows[len(rows) // 2][0], rows[-1][0]]
    for d in res.pending:
        res.violation('disagreement', d, no_input=not oracle_confirms(d))
    return res.finish(gate)

CHECKS['C13'] = check_C13

# ---------------------------------------------------------------- C12
def check_C12(tier, seed):
    import itertools
    from .gen import lispval as L
    from .gen.sexp import Dot
    res = Result('C12', tier, seed); res.pending = []
    gate = proof_gate('C12')
    core.build_model(); core.build_impl()
    rng = random.Random(seed)
    elems = [1, 'a', Str('s'), [1], Dot(['a'], 'b'), None]
    lists = [None]
    maxlen = tier_n(tier, 3, 4)
    for n in range(1, maxlen + 1):
        for t in itertools.product(elems, repeat=n):
            lists.append(list(t))
            if n <= 2: lists.append(Dot(list(t), 'z')); lists.append(Dot(list(t), 7))
    items = []
    def lit(x): return 'nil' if L.is_nil(x) else "'" + render(x)
    def add(text, fn): items.append((text, {'ref': fn}))
    cxrs = ['car', 'cdr'] + ['c' + ''.join(p) + 'r' for k in (2, 3, 4) for p in itertools.product('ad', repeat=k)]
    nested = [[[1, 2], [3, [4]], 5], [[['a']], 'b'], Dot([[1]], [2]), [[[[1]]]], None, [Dot([1], 2), Dot([Dot([3], 4)], 5)]]
    def tree(d, path=''):
        return path or 'root' if d == 0 else Dot([tree(d - 1, path + 'a')], tree(d - 1, path + 'd'))
    nested += [tree(5), tree(4), [1, [2, 3, 4], [5, 6], 7], [[[1, 2], 3], [[4, 5, 6, 7], 8, 9, 10], 11, 12, 13]]
    for l in nested + lists[:60]:
        for name in cxrs:
            add('(%s %s)' % (name, lit(l)), (lambda l=l, name=name: L.cxr(name[1:-1], l)))
    for l in lists:
        ln = len(L.elements(l)) if not L.is_nil(l) else 0
        for n in range(-1, ln + 3):
            add('(nth %d %s)' % (n, lit(l)), (lambda l=l, n=n: L.nth(n, l)))
            add('(nthcdr %d %s)' % (n, lit(l)), (lambda l=l, n=n: L.nthcdr(n, l)))
            if not isinstance(l, Dot):
                add('(equal (nth %d %s) (car (nthcdr %d %s)))' % (n, lit(l), n, lit(l)), (lambda: True))
            add('(last %s %d)' % (lit(l), n), (lambda l=l, n=n: L.last(l, n)))
        add('(last %s)' % lit(l), (lambda l=l: L.last(l)))
        if not isinstance(l, Dot):
            add('(length %s)' % lit(l), (lambda l=l: L.length(l)))
        add('(car (cons %s %s))' % (lit(l), lit(rng.choice(lists))), (lambda l=l: l))
        add('(cdr (cons 1 %s))' % lit(l), (lambda l=l: l))
        add('(consp %s)' % lit(l), (lambda l=l: L.is_cons(l)))
        add('(listp %s)' % lit(l), (lambda l=l: True))
        add('(null %s)' % lit(l), (lambda l=l: L.is_nil(l)))
    for _ in range(tier_n(tier, 600, 12000)):
        a, b, c = rng.choice(lists), rng.choice(lists), rng.choice(lists)
        k = rng.choice([2, 3])
        args = [a, b, c][:k]
        add('(append %s)' % ' '.join(lit(x) for x in args), (lambda args=args: L.append(*args)))
        if not any(isinstance(x, Dot) for x in args):
            add('(equal (length (append %s)) (+ %s))' % (' '.join(lit(x) for x in args), ' '.join('(length %s)' % lit(x) for x in args)), None)
    # the first argument of append may be a fresh cons onto a list that is still in use
    for _ in range(tier_n(tier, 100, 2000)):
        a = rng.choice([l for l in lists if isinstance(l, list) and l])
        b = rng.choice([l for l in lists if not isinstance(l, Dot)])
        add("(let ((a %s)) (list (append (cons 0 a) %s) a (length a) (append (cons 0 a) %s) a))" % (lit(a), lit(b), lit(b)),
            (lambda a=a, b=b: [L.append([0] + a, b), a, len(a), L.append([0] + a, b), a]))
        add("(let ((a %s)) (equal (length (append (cons 0 a) a)) (+ 1 (length a) (length a))))" % lit(a), (lambda: True))
    # alists / plists
    keys = ['a', 'b', 1, 2, Str('k'), [1]]
    for _ in range(tier_n(tier, 600, 12000)):
        al = []
        for _ in range(rng.choice([0, 1, 2, 3, 4])):
            x = rng.random()
            if x < 0.8: al.append(Dot([rng.choice(keys)], rng.choice([1, 'v', [2], None])))
            elif x < 0.9: al.append(rng.choice([5, 'junk', None]))
            else: al.append([rng.choice(keys), 9])
        key = rng.choice(keys)
        add('(assoc %s %s)' % (lit(key), lit(al)), (lambda key=key, al=al: L.assoc(key, al)))
        if isinstance(key, (str, int)):
            dflt = rng.choice([None, 'dflt'])
            def ref(key=key, al=al, dflt=dflt):
                e = L.assoc(key, al)
                return L.cdr(e) if e is not None else dflt
            add('(alist-get %s %s %s)' % (lit(key), lit(al), lit(dflt)), ref)
        pl = []
        for _ in range(rng.choice([0, 1, 2, 3])): pl += [rng.choice(['a', 'b', ':k', 'c']), rng.choice([1, 'v', [2], None, 'a'])]
        if rng.random() < 0.2 and pl: pl = pl[:-1]
        prop = rng.choice(['a', 'b', ':k', 'zz'])
        add('(plist-get %s %s)' % (lit(pl), lit(prop)), (lambda pl=pl, prop=prop: L.plist_get(pl, prop)))
    for al_, key_ in [([(1, 'a'), (2, 'b'), (3, 'c')], 2), ([(10, 'small'), (20, 'medium'), (30, 'large')], 15), ([(5, 'x')], 5), ([(3, 'p'), (1, 'q')], 2)]:
        alit = "'(" + ' '.join('(%d . %s)' % (k, v) for k, v in al_) + ')'
        for tf, fn_ in [("'<", lambda ek, k: ek < k), ("'>", lambda ek, k: ek > k), ("(lambda (ek k) (< (* 2 ek) k))", lambda ek, k: 2 * ek < k), ("(lambda (ek k) (tick ek k))", lambda ek, k: True)]:
            hit = next(((k, v) for k, v in al_ if fn_(k, key_)), None)
            add('(assoc %d %s %s)' % (key_, alit, tf), (lambda hit=hit: None if hit is None else Dot([hit[0]], hit[1])))
            add("(alist-get %d %s 'none nil %s)" % (key_, alit, tf), (lambda hit=hit: 'none' if hit is None else hit[1]))
    # higher order: visit every element once, in order (tick log = order of visits)
    fns = [("'1+", lambda x: x + 1), ("#'1+", lambda x: x + 1), ('(lambda (p) (* p 2))', lambda x: x * 2),
           ('(let ((k 3)) (lambda (p) (+ p k)))', lambda x: x + 3), ('(lambda (p) (tick 1 p))', lambda x: x),
           # a lambda form handed over as data (quoted, function-quoted, out of a list), a function name out of a list
           ("#'(lambda (p) (* p 2))", lambda x: x * 2), ("'(lambda (p) (+ p 3))", lambda x: x + 3), ("(car (list '(lambda (p) (- p 1))))", lambda x: x - 1), ("(car '(1+))", lambda x: x + 1),
           ("'(lambda (p) (tick 1 p))", lambda x: x)]
    preds = [('(lambda (p) (< p 3))', lambda x: x < 3), ("'integerp", lambda x: True), ('(lambda (p) (tick 2 (> p 1)))', lambda x: x > 1),
             ("#'(lambda (p) (< p 3))", lambda x: x < 3), ("'(lambda (p) (> p 1))", lambda x: x > 1), ("(car (list '(lambda (p) (< p 1))))", lambda x: x < 1)]
    for _ in range(tier_n(tier, 400, 8000)):
        xs = [rng.choice([0, 1, 2, 3, 5, -1]) for _ in range(rng.choice([0, 1, 2, 3, 5]))]
        ft, ff = rng.choice(fns)
        pt, pf = rng.choice(preds)
        add('(%s %s %s)' % (rng.choice(['mapcar', 'seq-map']), ft, lit(xs)), (lambda xs=xs, ff=ff: [ff(x) for x in xs]))
        add('(seq-filter %s %s)' % (pt, lit(xs)), (lambda xs=xs, pf=pf: [x for x in xs if pf(x)]))
        add("(seq-reduce %s %s %d)" % (rng.choice(["'+", "#'+", '(lambda (p q) (+ p q))', "'(lambda (p q) (+ p q))", "#'(lambda (p q) (+ q p))"]), lit(xs), 10), (lambda xs=xs: 10 + sum(xs)))
        add("(seq-reduce (lambda (acc e) (cons e acc)) %s nil)" % lit(xs), (lambda xs=xs: list(reversed(xs))))
        dflt = rng.choice([None, 'none'])
        add('(seq-find %s %s %s)' % (pt, lit(xs), lit(dflt)), (lambda xs=xs, pf=pf, dflt=dflt: next((x for x in xs if pf(x)), dflt)))
        nl = rng.choice([[None, 1], [1, None, 2], [None]])
        add("(seq-find 'null %s 'dflt)" % lit(nl), (lambda: None))
    rows = run_exprs(res, items, per_case=25)
    nv = 0
    distinct = set()
    for text, meta, im, mo in rows:
        if im is None: continue
        distinct.add((text.split(' ')[0], im['kind'], im['payload'] if im['kind'] == 'V' else ''))
        ref = meta['ref']
        try:
            exp = 't' if ref is None else L.show(ref())
            if exp in ('True',): exp = 't'
            if exp in ('False', 'None'): exp = 'nil'
        except L.LErr: exp = 'E'
        except Exception as e: continue
        got = im['payload'] if im['kind'] == 'V' else im['kind']
        if got != exp:
            nv += 1
            if nv <= 8:
                res.violation('list-function', {'expr': text, 'expected': exp, 'impl': im, 'oracle': 'reference list functions (vplib/gen/lispval.py)'})
    res.cov['distinct_nontrivial'] = len(distinct)
    res.cov['exhaustive'] = True
    res.cov['exhaustive_space'] = 'all lists of length <= %d over {1, a, "s", (1), (a . b), nil}, dotted variants up to length 2, every index in [-1, length+2], all 30 cxr names' % maxlen
    res.cov['rule'] = ('exhaustive small lists x indices x accessor functions, random append / assoc / alist-get / plist-get / mapcar / seq-* calls with built-in names, '
                       "function-quoted names, lambdas and closures; oracle: reference implementations in Python; the laws (car (cons a b)) = a, (nth n l) = (car (nthcdr n l)), "
                       '(length (append ..)) = sum are evaluated as expressions; correspondence with the Coq model incl. tick order; non-trivial = distinct (function, outcome)')
    res.cov['samples'] = [r[0] for r in rows[:2]] + [rows[len(rows) // 2][0], rows[-1][0]]
    replay_known(res, 'C12')
    for d in res.pending:
        res.violation('disagreement', d, no_input=not oracle_confirms(d))
    return res.finish(gate)

CHECKS['C12'] = check_C12

# ---------------------------------------------------------------- C17
def parse_pairs(text):
    """'((k . id) ...)' or '(k ...)' -> list"""
    m = re.findall(r'\((-?\d+) \. (-?\d+)\)', text)
    if m: return [(int(a), int(b)) for a, b in m]
    return None

def check_C17(tier, seed):
    res = Result('C17', tier, seed); res.pending = []
    gate = proof_gate('C17')
    core.build_model(); core.build_impl()
    rng = random.Random(seed)
    lens = [0, 1, 2, 3, 5, 19, 20, 21, 22, 33, 64] + ([200] if tier == 'quick' else [200, 1000, 3000])
    preds = [
        ('car<', "(lambda (p q) (< (car p) (car q)))", 'swo', lambda p, q: p[0] < q[0]),
        ('car>', "(lambda (p q) (> (car p) (car q)))", 'swo', lambda p, q: p[0] > q[0]),
        ('car<=', "(lambda (p q) (<= (car p) (car q)))", 'total-nonstrict', None),
        ('const-t', "(lambda (p q) t)", 'any', None),
        ('const-nil', "(lambda (p q) nil)", 'swo', lambda p, q: False),
        ('counter', "(lambda (p q) (setq cnt (1+ cnt)) (< (mod (* cnt 7) 5) 2))", 'any', None),
        ('tick<', "(lambda (p q) (tick 1 (< (car p) (car q))))", 'swo', lambda p, q: p[0] < q[0]),
        ('mod3', "(lambda (p q) (< (mod (car p) 3) (mod (car q) 3)))", 'swo', lambda p, q: p[0] % 3 < q[0] % 3),
        # a defun'd predicate whose answer for equal keys comes out of a self tail call (the loop must run under sort as well)
        ('tailrec-defun', "'tkey<", 'swo', lambda p, q: p[0] < q[0]),
        # the predicate sorts too (sort is re-entered while a merge is under way)
        ('nested-sort', "(lambda (p q) (< (car (sort (list 100 (car p) 50) '<)) (car (sort (list (car q) 70 200) '<))))", 'swo', lambda p, q: p[0] < q[0]),
        ('nested-sort-big', "(lambda (p q) (< (nth 5 (sort (list 9 8 (car p) 7 6 (+ 20 (car p)) 5 4 (+ 10 (car p)) 3) '>)) (nth 5 (sort (list 3 (+ 10 (car q)) 4 5 (+ 20 (car q)) 6 7 (car q) 8 9) '>))))", 'swo', lambda p, q: (7 if p[0] >= 7 else 6) < (7 if q[0] >= 7 else 6)),
    ]
    items = []
    for n in lens:
        reps = tier_n(tier, 6, 40) if n <= 64 else 2
        for _ in range(reps):
            nkeys = rng.choice([1, 2, 3, 3, 10])
            pairs = [(rng.randrange(nkeys), i) for i in range(n)]
            if rng.random() < 0.2: pairs.sort(key=lambda p: -p[0])          # descending blocks
            pairs = [(k, i) for i, (k, _) in enumerate(pairs)]                # id = position in the input
            lit = "'(" + ' '.join('(%d . %d)' % p for p in pairs) + ')' if pairs else 'nil'
            for name, ptext, kind, pf in preds:
                if n > 64 and name in ('counter', 'tick<'): continue
                text = '(setq cnt 0) (setq l %s) (list (sort l %s) l)' % (lit, ptext)
                if name == 'tailrec-defun':
                    text = "(defun tkey< (p q) (cond ((< (car p) (car q)) t) ((> (car p) (car q)) nil) (t (tkey< (cons (car p) 0) (cons (- (car q) 1) 0))))) " + text
                items.append((text, {'pairs': pairs, 'kind': kind, 'pf': pf, 'pred': name}))
            # failing predicate at its k-th call
            k = rng.randint(1, max(1, n))
            items.append(('(setq cnt 0) (setq l %s) (list (sort l (lambda (p q) (if (> (setq cnt (1+ cnt)) %d) (nofn) (< (car p) (car q))))) l)' % (lit, k),
                          {'pairs': pairs, 'kind': 'err', 'pf': None, 'pred': 'fail@%d' % k, 'k': k}))
    # plain integers and built-in predicate names, mixed element kinds
    for _ in range(tier_n(tier, 150, 3000)):
        n = rng.choice([0, 1, 2, 5, 21, 30])
        xs = [rng.randint(-5, 5) for _ in range(n)]
        # integers beyond 2^53 that differ by one, i64 extremes: exact integer comparison, no detour through floats
        if rng.random() < 0.3:
            base = rng.choice([2**53, -2**53, 2**62, 2**63 - 8, -2**63 + 1, 10**18])
            xs = [base + rng.randint(0, 7) for _ in range(n)]
        p = rng.choice(["'<", "'>", "#'<=", "'>="])
        items.append(("(setq l '(%s)) (list (sort l %s) l)" % (' '.join(map(str, xs)), p) if xs else "(setq l nil) (list (sort l %s) l)" % p,
                      {'ints': xs, 'kind': 'ints', 'pf': None, 'pred': p}))
    for p in ["'eq", "'equal", "'string<", "'cons", "'list", "'<"]:
        for l in ["'(1 b)", "'(a b c)", "'(\"b\" \"a\" \"c\")", "'((1) (2))", "'(b 1 a 2)"]:
            items.append(("(setq a 5 b 6 c 7) (setq l %s) (list (sort l %s) l)" % (l, p), {'kind': 'mixed', 'pf': None, 'pred': p}))
    for p in ["'eq", "'equal", "'<", "(lambda (p q) (equal p q))"]:
        for l in ["'(1 zz)", "'(zz 1)", "'(zz yy)", "'(1 b 6)", "'(6 b)", "'((+ 1 2) 3)", "'('a 'b)"]:
            items.append(("(setq b 6) (setq l %s) (list (sort l %s) l)" % (l, p), {'kind': 'mixed', 'pf': None, 'pred': p}))
    # the argument may share structure with other lists: it must not be rewritten
    for _ in range(tier_n(tier, 40, 800)):
        xs = [rng.randint(-5, 5) for _ in range(rng.choice([1, 2, 3, 5, 22]))]
        p = rng.choice(["'<", "'>"])
        items.append(("(setq xs '(%s)) (list (sort (cons %d xs) %s) xs (sort (append xs nil) %s) xs (sort (cdr xs) %s) xs)" %
                      (' '.join(map(str, xs)), rng.randint(-5, 5), p, p, p), {'kind': 'mixed', 'pf': None, 'pred': 'shared' + p}))
    # identity: the result holds the objects of the argument themselves (cons cells, strings, nested lists), not copies -
    # also when nothing has to move (ordered input, constant predicate, one element, equal keys)
    idcases = []
    idpreds = ["(lambda (p q) (< (car p) (car q)))", "(lambda (p q) nil)", "(lambda (p q) t)", "(lambda (p q) (> (car p) (car q)))", "(lambda (p q) (< (car p) (car q)))"]
    for j in range(tier_n(tier, 120, 2000)):
        n = rng.choice([1, 1, 2, 3, 5, 8, 21, 40])
        mode = rng.choice(['ordered', 'equal', 'random', 'reverse'])
        keys = {'ordered': list(range(n)), 'equal': [3] * n, 'random': [rng.randrange(5) for _ in range(n)], 'reverse': list(range(n, 0, -1))}[mode]
        ek = rng.choice(['cons', 'list', 'nested'])
        el = {'cons': '(cons %d %d)', 'list': '(list %d %d "s")', 'nested': '(list %d (list %d) (quote (q)))'}[ek]
        c = Case('id%d' % j)
        c.eval('(setq l (list %s)) (setq before (prin1-to-string l)) (setq s (sort l %s))' % (' '.join(el % (k, i) for i, k in enumerate(keys)), rng.choice(idpreds)))
        c.eval('(let ((all t)) (dolist (x s) (let ((found nil)) (dolist (y l) (if (eq x y) (setq found t))) (if found nil (setq all nil)))) (list all (length s) (equal (prin1-to-string l) before)))')
        c.meta = {'n': n, 'mode': mode, 'elements': ek}
        idcases.append(c)
    # elements that `equal` does not tell apart (an integer and the float of the same value, hash tables, lambdas) but the
    # predicate does: the predicate decides, whatever equal says
    eqcases = []
    for j, (text_, want_) in enumerate([
            ("(sort '(1 1.0 1 1.0 2.0 2 1.0 1 3 3.0) (lambda (a b) (< (if (floatp a) 0 1) (if (floatp b) 0 1))))", '(1.0 1.0 2.0 1.0 3.0 1 1 2 1 3)'),
            ("(let ((hs (mapcar (lambda (k) (let ((h (make-hash-table))) (puthash 'k k h) h)) '(3 1 2 0 5 4 7 6)))) (mapcar (lambda (h) (gethash 'k h)) (sort hs (lambda (a b) (< (gethash 'k a) (gethash 'k b))))))", '(0 1 2 3 4 5 6 7)'),
            ("(let ((fs (mapcar (lambda (k) (let ((kk k)) (lambda () kk))) '(4 2 6 0 3 1 5)))) (mapcar 'funcall (sort fs (lambda (a b) (< (funcall a) (funcall b))))))", '(0 1 2 3 4 5 6)'),
            ("(sort '(2 2.0 1.0 1 2 1.0) (lambda (a b) (and (integerp a) (floatp b))))", '(2 1 2 2.0 1.0 1.0)')]):
        c = Case('eqv%d' % j); c.eval(text_); c.meta = {'want': want_, 'text': text_}; eqcases.append(c)
    eqout = core.run_side(core.TLIMPL_DEBUG, eqcases, announce=True)
    idout = core.run_side(core.TLIMPL_DEBUG, idcases, announce=True)
    rows = run_exprs(res, items, per_case=10)
    nv = 0
    distinct = set()
    for c in eqcases:
        ls = eqout.get(c.cid, [])
        res.cov['evaluations'] += 1
        got = None
        if ls:
            _, kind_, payload_, _ = core.parse_line(ls[-1]); got = unhx(payload_) if kind_ == 'V' else kind_
        if got != c.meta['want']:
            nv += 1
            if nv <= 8: res.violation('sort', {'program': c.meta['text'], 'expected': c.meta['want'], 'got': got, 'why': 'elements that equal conflates are not ordered (stably) by the predicate'})
    for c in idcases:
        ls = idout.get(c.cid, [])
        res.cov['evaluations'] += 1
        want = '(t %d t)' % c.meta['n']
        got = None
        if len(ls) >= 2:
            _, kind_, payload_, _ = core.parse_line(ls[-1])
            got = unhx(payload_) if kind_ == 'V' else kind_ + ' ' + payload_
        if got != want:
            nv += 1
            if nv <= 8: res.violation('sort', {'requests': c.readable(), 'why': 'the sorted list does not consist of the very objects of the argument (eq), or the argument was modified', 'expected': want, 'got': got, 'case': c.meta})
    for text, meta, im, mo in rows:
        if im is None: continue
        kind = meta['kind']
        distinct.add((meta['pred'], len(meta.get('pairs', meta.get('ints', []))), im['kind']))
        def bad(why):
            nonlocal nv
            nv += 1
            if nv <= 8: res.violation('sort', {'program': text[:3000], 'why': why, 'impl': {k: (v[:2000] if isinstance(v, str) else v) for k, v in im.items()}})
        if im['kind'] not in ('V', 'E'):
            bad('sort must return a list or fail with the predicate\'s error, never panic'); continue
        if kind == 'err':
            npairs = len(meta['pairs'])
            continue        # outcome decided by the model comparison (error iff the predicate is called more than k times)
        if kind in ('ints', 'mixed'):
            if kind == 'ints' and im['kind'] == 'V':
                m = re.fullmatch(r'\((\(.*?\)|nil) (\(.*?\)|nil)\)', im['payload'])
                if not m: bad('unexpected shape'); continue
                r = [int(x) for x in re.findall(r'-?\d+', m.group(1))]
                inp = [int(x) for x in re.findall(r'-?\d+', m.group(2))]
                if inp != meta['ints']: bad('input list changed')
                if sorted(r) != sorted(meta['ints']): bad('not a permutation')
                p = meta['pred']
                asc = '<' in p
                if any((r[i] > r[i + 1]) if asc else (r[i] < r[i + 1]) for i in range(len(r) - 1)): bad('not ordered')
            continue
        if im['kind'] == 'E': bad('error without a predicate error'); continue
        # payload = ((sorted...) (input...))
        allp = parse_pairs(im['payload']) or []
        n = len(meta['pairs'])
        if len(allp) != 2 * n: bad('result or input has the wrong number of elements'); continue
        r, inp = allp[:n], allp[n:]
        if inp != meta['pairs']: bad('input list changed')
        if sorted(r) != sorted(meta['pairs']): bad('not a permutation of the input'); continue
        pf = meta['pf']
        if kind == 'swo' and pf:
            for i in range(n - 1):
                if pf(r[i + 1], r[i]): bad('element %s placed before %s which the predicate orders ahead of it' % (r[i], r[i + 1])); break
            # stability: among elements the predicate does not distinguish, ids increase
            for i in range(n - 1):
                if not pf(r[i], r[i + 1]) and not pf(r[i + 1], r[i]) and r[i][1] > r[i + 1][1]:
                    bad('not stable: %s before %s' % (r[i], r[i + 1])); break
    res.cov['distinct_nontrivial'] = len(distinct)
    res.cov['rule'] = ('lists of lengths %s of (key . id) pairs with 1-10 distinct keys (some in descending blocks) x predicates {strict on car, reversed, non-strict, constant t / nil, '
                       'counter-driven inconsistent, ticking, key mod 3, failing at its k-th call}, integers with built-in predicate names, mixed element kinds; oracle: list-or-predicate-error, '
                       'permutation, ordered and stable for strict weak orders, input variable printed afterwards unchanged; correspondence: exact result and predicate call log equal to the model' % lens)
    res.cov['samples'] = [rows[0][0][:300], rows[len(rows) // 2][0][:300]]
    for d in res.pending:
        res.violation('disagreement', d, no_input=not oracle_confirms(d))
    return res.finish(gate)

CHECKS['C17'] = check_C17

# ---------------------------------------------------------------- C15
def lisp_str(s):
    return '"' + s.replace('\\', '\\\\').replace('"', '\\"') + '"'

def py_print(v, prin1=True):
    """Printed form of a Python-side value (str -> Lisp string, ('sym', n), int, float, list)."""
    from .gen.sexp import fmt_float
    if v is None: return 'nil'
    if v is True: return 't'
    if isinstance(v, str): return lisp_str(v) if prin1 else v
    if isinstance(v, tuple) and v[0] == 'sym': return v[1]
    if isinstance(v, int): return str(v)
    if isinstance(v, float): return fmt_float(v)
    if isinstance(v, list): return '(' + ' '.join(py_print(x, True) for x in v) + ')' if v else 'nil'
    raise TypeError(v)

def py_lit(v):
    if isinstance(v, tuple) and v[0] == 'sym': return "'" + v[1]
    if isinstance(v, list): return "'" + py_print(v) if v else 'nil'
    return py_print(v)

def ref_format(fmt, args):
    """Returns ('ok', text, used_f) | 'error' | None (no opinion)."""
    out = []; i = 0; k = 0; used_f = False
    while i < len(fmt):
        ch = fmt[i]
        if ch != '%': out.append(ch); i += 1; continue
        if i + 1 >= len(fmt): return None           # lone % at the end: not covered
        d = fmt[i + 1]; i += 2
        if d == '%': out.append('%'); continue
        if d not in 'sSdf': return 'error'
        if k >= len(args): return 'error'
        a = args[k]; k += 1
        if d == 's': out.append(py_print(a, False))
        elif d == 'S': out.append(py_print(a, True))
        elif d == 'd':
            if isinstance(a, bool) or not isinstance(a, (int, float)): return 'error'
            out.append(str(int(a)))
        elif d == 'f':
            if isinstance(a, bool) or not isinstance(a, (int, float)): return 'error'
            used_f = True
            out.append('%f' % float(a))
    return ('ok', ''.join(out), used_f)

def check_C15(tier, seed):
    import itertools
    res = Result('C15', tier, seed); res.pending = []
    gate = proof_gate('C15')
    core.build_model(); core.build_impl()
    rng = random.Random(seed)
    S = ['', 'a', 'ab', 'b', 'A', '"', '\\', '%', '\n', 'é', '漢', '\U0001F600', 'a"b', 'x\\y', '100%', 'abc', 'ab\\', '\\"']
    items = []
    def add(text, exp, tag): items.append((text, {'exp': exp, 'tag': tag}))
    # concat
    for n in range(0, 4):
        for t in (itertools.product(S, repeat=n) if n <= 2 else [tuple(rng.choice(S) for _ in range(n)) for _ in range(tier_n(tier, 200, 4000))]):
            add('(concat %s)' % ' '.join(lisp_str(x) for x in t), lisp_str(''.join(t)), 'concat')
    for _ in range(tier_n(tier, 200, 4000)):
        a, b, c = (rng.choice(S) for _ in range(3))
        add('(equal (concat (concat %s %s) %s) (concat %s (concat %s %s)))' % tuple(lisp_str(x) for x in (a, b, c, a, b, c)), 't', 'concat-assoc')
        add('(list (equal (concat %s "") %s) (equal (concat "" %s) %s))' % tuple(lisp_str(x) for x in (a, a, a, a)), '(t t)', 'concat-id')
    for bad in ['1', "'a", 'nil', "'(\"a\")", '2.5']:
        add('(concat "a" %s)' % bad, 'E', 'concat-type')
    # string orderings
    fns = {'string<': lambda a, b: a < b, 'string>': lambda a, b: a > b, 'string=': lambda a, b: a == b,
           'string-lessp': lambda a, b: a < b, 'string-greaterp': lambda a, b: a > b, 'string-equal': lambda a, b: a == b}
    for a, b in itertools.product(S, S):
        for f, pf in fns.items():
            add('(%s %s %s)' % (f, lisp_str(a), lisp_str(b)), 't' if pf(a, b) else 'nil', 'strcmp')
    for f in fns:
        add('(%s "a" 1)' % f, 'E', 'strcmp-type'); add('(%s \'a "a")' % f, 'E', 'strcmp-type'); add('(%s "a")' % f, 'E', 'strcmp-arity')
        add('(%s "a" "b" "c")' % f, 'E', 'strcmp-arity')
    # format
    # literal text of the template: ASCII, multi-byte, quote, backslash, newline
    dirs = ['%s', '%S', '%d', '%f', '%%', '%x', 'lit', ' ', '%c', '\u00e9', '\u00b0C \u2014 ', '\u6f22\U0001F600', 'a"b', 'x\\y', '\n']
    argvals = [1, -7, 2.5, 22.8, 3.0, 'str', 'a"b', ('sym', 'foo'), None, True, [1, 'x'], [('sym', 'a'), [2]], '', 'x\\y', 'na\u00efve \u6f22']
    nfmt = tier_n(tier, 1500, 40000)
    fmts = []
    for n in (0, 1, 2):
        for t in itertools.product(dirs, repeat=n): fmts.append(''.join(t))
    while len(fmts) < nfmt: fmts.append(''.join(rng.choice(dirs) for _ in range(3)))
    for f in fmts:
        need = len(re.findall(r'%[^%]', f.replace('%%', '')))
        for delta in (-1, 0, 1):
            n = need + delta
            if n < 0: continue
            args = [rng.choice(argvals) for _ in range(n)]
            if rng.random() < 0.5:
                # mostly well-typed
                ds = re.findall(r'%([^%])', f.replace('%%', ''))
                for i, d in enumerate(ds[:n]):
                    if d == 'd': args[i] = rng.choice([1, -7, 2.5, 40])
                    if d == 'f': args[i] = rng.choice([1, 2.5, 22.8, -0.5])
            exp = ref_format(f, args)
            text = '(format %s%s)' % (lisp_str(f), ''.join(' ' + py_lit(a) for a in args))
            if exp is None: add(text, None, 'format')
            elif exp == 'error': add(text, 'E', 'format')
            else: items.append((text, {'exp': lisp_str(exp[1]), 'tag': 'format', 'used_f': exp[2]}))
    add('(format 5)', 'E', 'format'); add("(format 'a 1)", 'E', 'format'); add('(format)', 'E', 'format')
    # prin1-to-string / print / princ
    for v in argvals + [[1, 2, [3]], 100, -0.5]:
        has_str = 'str' if ('"' in py_print(v, True)) else 'nostr'
        items.append(('(prin1-to-string %s)' % py_lit(v), {'exp': lisp_str(py_print(v, True)), 'tag': 'prin1', 'has_str': has_str == 'str'}))
        add('(equal (print %s) %s)' % (py_lit(v), py_lit(v)), 't', 'print-ret')
        add('(equal (princ %s) %s)' % (py_lit(v), py_lit(v)), 't', 'print-ret')
    # symbols
    names = ['abc', 'a', 'x-y', 'nil2', ':kw', 'é', 'with space', '']
    for n in names:
        add('(let ((s (intern %s))) (list (symbolp s) (eq s (intern %s)) (equal (prin1-to-string s) %s)))' % (lisp_str(n), lisp_str(n), lisp_str(n)), '(t t t)', 'intern')
        add('(let ((s (make-symbol %s))) (list (symbolp s) (eq s (intern %s)) (eq s (make-symbol %s)) (eq s s) (equal (prin1-to-string s) %s)))' % ((lisp_str(n),) * 4), '(t nil nil t t)', 'make-symbol')
    add("(eq (intern \"abc\") 'abc)", 't', 'intern'); add("(intern 'a)", 'E', 'intern'); add('(make-symbol 1)', 'E', 'make-symbol')
    add('(gensym 1)', 'E', 'gensym-type')
    for _ in range(tier_n(tier, 60, 1500)):
        k = rng.choice([2, 3, 5, 8])
        pre = rng.choice(['', '"g"', '"p"', '"x-"'])
        calls = ' '.join('(prin1-to-string (gensym %s))' % (pre if rng.random() < 0.8 else '') for _ in range(k))
        wrap = rng.choice(['(list %s)', '(let ((gensym-counter %d)) (list %%s))' % rng.choice([0, 5, 100]), '(progn (setq gensym-counter %d) (list %%s))' % rng.choice([0, 7]),
                           '(progn (setq gensym-counter %d) (let ((gensym-counter %d)) (list %%s)))' % (rng.choice([0, 3]), rng.choice([10, 50])),
                           '(progn (gensym) (let ((gensym-counter %d)) (list %%s)))' % rng.choice([10, 50])])
        items.append((wrap % calls, {'exp': None, 'tag': 'gensym', 'k': k}))
        add('(let ((a (gensym)) (b (gensym))) (list (eq a b) (eq a a) (symbolp a)))', '(nil t t)', 'gensym-eq')
    rows = run_exprs(res, items, per_case=25)
    nv = 0; kf_prin1 = kf_f = 0
    distinct = set()
    for text, meta, im, mo in rows:
        if im is None: continue
        tag = meta['tag']
        got = im['payload'] if im['kind'] == 'V' else im['kind']
        distinct.add((tag, got[:30]))
        def bad(exp, why):
            nonlocal nv
            nv += 1
            if nv <= 8: res.violation('strings', {'expr': text, 'expected': exp, 'impl': im, 'why': why})
        if im['kind'] not in ('V', 'E'): bad(None, 'panic'); continue
        if tag == 'gensym':
            if im['kind'] != 'V': bad(None, 'gensym failed'); continue
            names_ = re.findall(r'"([^"]*)"', im['payload'])
            if len(names_) != meta['k'] or len(set(names_)) != len(names_): bad('distinct names', 'successive gensym names repeat')
            continue
        exp = meta['exp']
        if exp is None: continue
        if got != exp:
            if tag == 'prin1' and meta.get('has_str'): kf_prin1 += 1; continue
            if tag == 'format' and meta.get('used_f'): kf_f += 1; continue
            bad(exp, tag)
    replay_known(res, 'C15')
    classifier_hits(res, 'C15', 'c15_prin1_string', kf_prin1, '(prin1-to-string "a") => a')
    classifier_hits(res, 'C15', 'c15_format_f', kf_f, '(format "%f" 22.8) => 22.8')
    res.cov['distinct_nontrivial'] = len(distinct)
    res.cov['rule'] = ('concat of all tuples of length 0-2 (random 3) over %d strings incl. empty, quote, backslash, percent, newline, non-ASCII, astral; associativity/identity laws; '
                       'six string comparisons on all pairs; all format strings of up to 2 pieces over {%%s %%S %%d %%f %%%% %%x %%c literal} and random 3-piece ones, with too few / exact / too many / '
                       'ill-typed arguments; prin1-to-string, print, princ; intern / make-symbol / gensym identity and name sequences (also under a let-bound gensym-counter); '
                       'oracle: Python string functions; correspondence with the model' % len(S))
    res.cov['samples'] = [rows[0][0], rows[len(rows) // 3][0], rows[2 * len(rows) // 3][0]]
    for d in res.pending:
        res.violation('disagreement', d, no_input=not oracle_confirms(d))
    return res.finish(gate)

CHECKS['C15'] = check_C15

# ---------------------------------------------------------------- C14
def check_C14(tier, seed):
    import itertools, struct
    from .gen import lispval as L
    from .gen.sexp import Dot
    res = Result('C14', tier, seed); res.pending = []
    gate = proof_gate('C14')
    core.build_model(); core.build_impl()
    rng = random.Random(seed)
    atoms = [0, 1, -1, 2, 1.0, 2.0, 2.5, 0.0, -0.0, Str(''), Str('a'), Str('ab'), 'a', 'b', ':k', ':j', None, True,
             2**53, 2**53 + 1, 2**63 - 1, 2**63 - 2, -2**63, 9007199254740992.0]
    def gen_val(d):
        if d <= 0 or rng.random() < 0.45: return rng.choice(atoms)
        n = rng.choice([1, 2, 3])
        xs = [gen_val(d - 1) for _ in range(n)]
        if rng.random() < 0.2: return Dot(xs, rng.choice([1, 'a', Str('s'), 2.0]))
        return xs
    def lit(x): return 'nil' if L.is_nil(x) else ('t' if x is True else "'" + render(x))
    def mutate(x):
        """A value equal or nearly equal to x."""
        if isinstance(x, list) and x:
            y = list(x); i = rng.randrange(len(y)); y[i] = mutate(y[i]) if rng.random() < 0.7 else gen_val(1); return y
        if isinstance(x, Dot): return Dot(list(x.items), mutate(x.tail)) if rng.random() < 0.5 else Dot([mutate(i) for i in x.items], x.tail)
        if isinstance(x, int) and not isinstance(x, bool): return rng.choice([x, float(x), x + 1 if x < 2**63 - 1 else x - 1])
        if isinstance(x, float): return rng.choice([x, int(x) if x == int(x) else x, x + 0.5])
        return rng.choice([x, gen_val(0)])
    items = []
    def add(text, exp, tag): items.append((text, {'exp': exp, 'tag': tag}))
    vals = list(atoms) + [gen_val(3) for _ in range(tier_n(tier, 60, 600))]
    # inside a closure that captures x, the quoted symbol x is replaced by the closure's cell: eq / equal / hash keys still
    # identify it with the interned symbol, in both argument orders, at any depth
    for wrap in ["(let ((x 1)) (funcall (lambda () x %s)))", "(funcall (let ((x 1) (y 2)) (lambda (p) (list x y) %s)) 0)", "(let ((x 1)) (funcall (funcall (lambda () (lambda () x %s)))))"]:
        for body, exp in [("(list (eq 'x (intern \"x\")) (eq (intern \"x\") 'x) (equal 'x (intern \"x\")) (equal (intern \"x\") 'x) (eq 'x 'x) (eq 'x 'y))", '(t t t t t nil)'),
                          ("(list (equal '(a (x . 2)) (list 'a (cons (intern \"x\") 2))) (equal (list 'a (cons (intern \"x\") 2)) '(a (x . 2))) (equal '(x) '(y)))", '(t t nil)'),
                          ("(let ((h (make-hash-table))) (puthash 'x 1 h) (puthash (intern \"x\") 2 h) (list (gethash 'x h) (gethash (intern \"x\") h) (hash-table-count h)))" if False else
                           "(let ((h (make-hash-table))) (puthash 'x 1 h) (puthash (intern \"x\") 2 h) (list (gethash 'x h) (gethash (intern \"x\") h)))", '(2 2)'),
                          ("(list (assoc 'x (list (cons (intern \"x\") 1))) (assoc (intern \"x\") '((x . 1))) (alist-get 'x (list (cons (intern \"x\") 5))))", '((x . 1) (x . 1) 5)')]:
            add(wrap % body, exp, 'closure-symbol')
    for body, exp in [("(let ((tail (list 3 4))) (list (equal (cons 0 (cons 1 tail)) (cons 0 (cons 2 tail))) (equal (cons 1 tail) (cons 2 tail)) (equal (cons 0 (cons 1 tail)) (cons 0 (cons 1 tail))) (equal (cons 9 (cons 1 tail)) (cons 8 (cons 1 tail)))))", '(nil nil t nil)'),
                      ("(let* ((l (list 1 2 3 4)) (a (cons 'x (cdr l))) (b (cons 'y (cdr l)))) (list (equal a b) (equal (cons 0 a) (cons 0 b)) (equal a (cons 'x (cdr l))) (equal (cdr a) (cdr b)) (equal l (cons 1 (cdr l)))))", '(nil nil t t t)'),
                      ("(let ((tail '(z))) (list (equal (list 'a (cons 1 tail) 'b) (list 'a (cons 2 tail) 'b)) (equal (cons (cons 1 tail) tail) (cons (cons 2 tail) tail)) (equal (cons \"s\" tail) (cons \"t\" tail)) (equal (cons 1.5 tail) (cons 1.5 tail))))", '(nil nil nil t)')]:
        add(body, exp, 'shared-tail')
    # integer keys are keys by value: a computed integer finds the entry stored under a literal, and overwrites it
    for body, exp in [("(let ((h (make-hash-table))) (dotimes (i 5) (puthash i (* i i) h)) (puthash (+ 1 1) 'two h) (list (gethash 0 h) (gethash 1 h) (gethash 2 h) (gethash (- 5 1) h) (gethash 9 h)))", '(0 1 two 16 nil)'),
                      ("(let ((h (make-hash-table)) (n 3)) (puthash 3 'lit h) (puthash n 'var h) (puthash (+ 1 2) 'sum h) (puthash 3.0 'flt h) (list (gethash 3 h) (gethash (* 1 3) h) (gethash 3.0 h) (gethash (/ 6.0 2) h)))", '(sum sum flt flt)'),
                      ("(let ((h (make-hash-table))) (puthash -9223372036854775808 'min h) (puthash (- -9223372036854775807 1) 'min2 h) (list (gethash -9223372036854775808 h) (gethash (1+ 9223372036854775806) h)))", '(min2 nil)')]:
        add(body, exp, 'computed-integer-key')
    pairs = list(itertools.product(atoms, atoms))
    for _ in range(tier_n(tier, 1500, 40000)):
        a = rng.choice(vals); b = mutate(a) if rng.random() < 0.6 else rng.choice(vals)
        pairs.append((a, b))
    def t(b): return 't' if b else 'nil'
    def equal_rounding(a, b):
        """equal as built: an integer compared with a float is first converted to a float (D22)."""
        if isinstance(a, bool) or isinstance(b, bool) or a is None or b is None: return L.equal(a, b)
        if isinstance(a, int) and isinstance(b, float): return float(a) == b
        if isinstance(a, float) and isinstance(b, int): return a == float(b)
        if isinstance(a, list) and isinstance(b, list): return len(a) == len(b) and all(equal_rounding(x, y) for x, y in zip(a, b))
        if isinstance(a, Dot) and isinstance(b, Dot):
            return len(a.items) == len(b.items) and all(equal_rounding(x, y) for x, y in zip(a.items, b.items)) and equal_rounding(a.tail, b.tail)
        return L.equal(a, b)
    for a, b in pairs:
        e = L.equal(a, b)
        e2 = equal_rounding(a, b)
        items.append(('(list (equal %s %s) (equal %s %s))' % (lit(a), lit(b), lit(b), lit(a)),
                      {'exp': '(%s %s)' % (t(e), t(e)), 'tag': 'equal-sym', 'as_built_d22': '(%s %s)' % (t(e2), t(e2)) if e2 != e else None}))
    for a in vals:
        add('(let ((x %s)) (list (eq x x) (equal x x) (equal x %s)))' % (lit(a), lit(a)), '(t t t)', 'refl')
        add("(let ((x %s) (y %s)) (if (eq x y) (equal x y) t))" % (lit(a), lit(mutate(a))), 't', 'eq-implies-equal')
    # symbols: same name, same object; make-symbol / gensym never
    for n in ['abc', 'x', 'nil', 't', ':kw', 'a-b']:
        add("(list (eq '%s '%s) (eq '%s (intern \"%s\")) (eq (intern \"%s\") (intern \"%s\")) (eq (make-symbol \"%s\") '%s) (eq (make-symbol \"%s\") (make-symbol \"%s\")) (equal (make-symbol \"%s\") '%s))"
            % ((n,) * 12), '(t t t nil nil nil)' if n not in ('nil', 't') else None, 'symbols')
    for n in ['a', 'g0', 'x-y']:
        add("(let ((u (make-symbol \"%s\"))) (list (equal (cons 1 u) (cons 1 '%s)) (equal (list u) (list '%s)) (equal (list 1 2 u) (list 1 2 '%s)) (equal (cons 1 u) (cons 1 u)) (equal (cons u 1) (cons '%s 1)) (equal (cons 1 (cons 2 u)) '(1 2 . %s))))"
            % ((n,) * 6), '(nil nil nil t nil nil)', 'symbols')
    add("(let ((g (gensym))) (list (eq g (gensym)) (eq g (intern (prin1-to-string g))) (eq g g)))", '(nil nil t)', 'symbols')
    add("(list (eq nil nil) (eq t t) (eq nil t) (eq 'a 'b) (eq :k :k) (eq :k :j) (eq nil '()) (eq 'a \"a\"))", '(t t nil nil t nil t nil)', 'symbols')
    # hash tables: a finite map keyed by eql
    kinds = [('1', ('i', 1)), ('2', ('i', 2)), ('1.0', ('f', 1.0)), ('2.5', ('f', 2.5)), ('0.0', ('f', 0.0)), ('-0.0', ('f', -0.0)),
             ("'a", ('y', 'a')), ("'b", ('y', 'b')), (':k', ('y', ':k')), ('nil', ('y', 'nil')), ('t', ('y', 't')),
             ('k1', ('o', 'k1')), ('k2', ('o', 'k2')), ('k3', ('o', 'k3')), ('k4', ('o', 'k4')), ('-1', ('i', -1)), ("(intern \"a\")", ('y', 'a'))]
    prelude = '(setq h (make-hash-table)) (setq h2 (make-hash-table)) (setq k1 (concat "a" "")) (setq k2 (concat "a" "")) (setq k3 (list 1 2)) (setq k4 (list 1 2))'
    def keyid(k):
        if k[0] == 'f': return ('f', struct.pack('>d', k[1]))
        return k
    for _ in range(tier_n(tier, 800, 20000)):
        n = rng.choice([1, 2, 4, 8, 12])
        m = {'h': {}, 'h2': {}}
        forms = []; exp = []
        for i in range(n):
            tb = rng.choice(['h', 'h', 'h', 'h2'])
            kt, kid = rng.choice(kinds)
            if rng.random() < 0.55:
                v = rng.choice([i, None, "'v%d" % i])
                forms.append('(puthash %s %s %s)' % (kt, 'nil' if v is None else v, tb)); exp.append('nil')
                m[tb][keyid(kid)] = v
            else:
                forms.append('(gethash %s %s)' % (kt, tb))
                v = m[tb].get(keyid(kid))
                exp.append('nil' if v is None else str(v).lstrip("'"))
        add('%s (list %s)' % (prelude, ' '.join(forms)), '(' + ' '.join(exp) + ')', 'hash')
    add("(gethash 1 5)", 'E', 'hash-type'); add("(puthash 1 2 'x)", 'E', 'hash-type'); add("(gethash 1 (make-hash-table))", 'nil', 'hash')
    rows = run_exprs(res, items, per_case=20)
    nv = 0
    kf_mixed = 0; kf_ex = None
    distinct = set()
    for text, meta, im, mo in rows:
        if im is None or meta['exp'] is None: continue
        got = im['payload'] if im['kind'] == 'V' else im['kind']
        distinct.add((meta['tag'], got[:40], text[:30]))
        if got != meta['exp']:
            if meta.get('as_built_d22') == got:
                kf_mixed += 1; kf_ex = kf_ex or text
                continue
            nv += 1
            if nv <= 8: res.violation('equality', {'expr': text, 'expected': meta['exp'], 'impl': im, 'class': meta['tag']})
    replay_known(res, 'C14')
    classifier_hits(res, 'C14', 'c14_mixed_big', kf_mixed, kf_ex)
    res.cov['distinct_nontrivial'] = len(distinct)
    res.cov['rule'] = ('pairs of data values (all pairs of %d atoms incl. 1/1.0, 0.0/-0.0, strings, symbols, keywords, nil, t; random nested / dotted lists and near-equal mutations) under equal in both orders; '
                       'reflexivity and eq-implies-equal through variables; interning / make-symbol / gensym identity; hash-table histories of up to 12 puthash/gethash over two tables with symbol, integer, float, '
                       'string and list keys (heap keys are distinct objects held in variables); oracle: structural equality and a Python dict keyed by eql; correspondence with the model where identity is expressible' % len(atoms))
    res.cov['samples'] = [rows[0][0], rows[len(rows) // 2][0][:400], rows[-5][0][:400]]
    for d in res.pending:
        res.violation('disagreement', d, no_input=not oracle_confirms(d))
    return res.finish(gate)

CHECKS['C14'] = check_C14

# ---------------------------------------------------------------- C07
def check_C07(tier, seed):
    import itertools
    from .gen.sexp import Dot, Wrap, BQ, UQ, SPL
    res = Result('C07', tier, seed); res.pending = []
    gate = proof_gate('C07')
    core.build_model(); core.build_impl()
    rng = random.Random(seed)
    tid = [0]
    def tk(e): tid[0] += 1; return ['tick', tid[0], e]
    unq_exprs = ['x', 'l1', ['+', 1, 2], Q('sym'), Str('s'), ['list', 'x', 'x'], 'l0']
    spl_exprs = ['l0', 'l1', 'l3', ['list', 'x', 2], Q([7, 8]), None, ['cdr', 'l3'], 'l3']
    # template grammar
    def gen_item(d):
        x = rng.random()
        if x < 0.3: return rng.choice([1, 'a', Str('s'), ':k', None, 2.5])
        if x < 0.5: return UQ(tk(rng.choice(unq_exprs)))
        if x < 0.7: return SPL(tk(rng.choice(spl_exprs)))
        if x < 0.78: return Q(gen_item(d - 1) if d > 0 else 'q')
        if x < 0.83: return Q(UQ(tk(rng.choice(unq_exprs))))
        if x < 0.87: return FQ(UQ(tk(rng.choice(unq_exprs)))) if rng.random() < 0.6 else FQ([gen_item(0), SPL(tk(rng.choice(spl_exprs)))])
        if d <= 0: return 'b'
        return gen_tmpl(d - 1)
    def gen_tmpl(d):
        n = rng.choice([0, 1, 2, 3, 4])
        items = [gen_item(d) for _ in range(n)]
        if items and rng.random() < 0.2:
            c = rng.choice([0, 1, 2])
            t = UQ(tk(rng.choice(unq_exprs + spl_exprs))) if c == 0 else ('tl' if c == 1 else 5)
            return Dot(items, t)
        return items
    def to_cons(t):
        """The equivalent list / cons / append construction."""
        if isinstance(t, Wrap):
            if t.pre == ',': return t.x
            if t.pre in ("'", "#'"): return ['bqquote', to_cons(t.x)]
            return Q(t)
        if isinstance(t, (list, Dot)) and (isinstance(t, Dot) or len(t) > 0):
            its = t.items if isinstance(t, Dot) else t
            parts = []
            for i in its:
                if isinstance(i, Wrap) and i.pre == ',@': parts.append(i.x)
                else: parts.append(['list', to_cons(i)])
            parts.append(to_cons(t.tail) if isinstance(t, Dot) else None)
            return ['append'] + parts
        return Q(t) if isinstance(t, (str, list)) and not (isinstance(t, str) and t.startswith(':')) else t
    prelude = "(setq x 5) (setq l0 nil) (setq l1 '(one)) (setq l3 '(p q r)) (defun bqquote (v) (list 'quote v))"
    # Quote wrappers are objects, not (quote x) lists: compare printed forms of the wrapper-free part via equal on a construction
    items = []
    ntemplates = tier_n(tier, 1500, 40000)
    for _ in range(ntemplates):
        tid[0] = 0
        t = gen_tmpl(2)
        text_t = render(BQ(t))
        has_quote = "'" in render(t)
        cons = render(to_cons(t))
        # strip ticks from the construction so that each unquote is logged once per evaluation of the template only
        prog = ("%s (defun mk () %s) (let ((r1 (mk)) (r2 (mk))) (list r1 (equal r1 r2) %s (list x l0 l1 l3)))"
                % (prelude, text_t, ('(equal r1 %s)' % re.sub(r'\(tick \d+ ', '(progn ', cons)) if not has_quote else 't'))
        items.append((prog, {'tmpl': text_t, 'nticks': tid[0]}))
    # exhaustive small templates: up to 3 items over a fixed item set, optional dotted tail
    small = [1, 'a', UQ('x'), UQ('l3'), SPL('l0'), SPL('l1'), SPL('l3'), ['b', UQ('x')], [SPL('l3')], Q(UQ('x')), FQ(UQ('x'))]
    tails = [None, UQ('x'), UQ('l3'), 'tl']
    nex = 0
    for n in range(0, tier_n(tier, 3, 4)):
        for its in itertools.product(small, repeat=n):
            for tl in tails:
                if n == 0 and tl is not None: continue
                t = list(its) if tl is None else Dot(list(its), tl)
                text_t = render(BQ(t))
                has_quote = "'" in render(t)
                prog = ("%s (defun mk () %s) (let ((r1 (mk)) (r2 (mk))) (list r1 (equal r1 r2) %s (list x l0 l1 l3)))"
                        % (prelude, text_t, ('(equal r1 %s)' % render(to_cons(t))) if not has_quote else 't'))
                items.append((prog, {'tmpl': text_t, 'nticks': 0})); nex += 1
    # freshness: spine cells and nested sublists of two evaluations are different objects; the spliced list is not the result's tail
    fresh = []
    for t in ["`(1 2 3)", "`(a (b c) d)", "`(1 ,x (2 3))", "`(,@l3 z)", "`(0 ,@l3)", "`((a) ,@l1 (b))", "`(,x . ,l3)"]:
        fresh.append(("%s (defun mk () %s) (let ((r1 (mk)) (r2 (mk))) (list (eq r1 r2) (eq (cdr r1) (cdr r2)) (eq (cdr r1) l3) (eq (cdr r1) (cdr l3)) (if (consp (cadr r1)) (eq (cadr r1) (cadr r2))) (if (consp (car r1)) (eq (car r1) (car r2)))))" % (prelude, t),
                      {'tmpl': t, 'fresh': True}))
    # the same small templates evaluated inside a closure, after the let that bound their variables has exited and
    # while other bindings of the same names are live: equal to the evaluation inside the let
    clos = []
    LETB = "((x 5) (l0 nil) (l1 '(one)) (l3 '(p q r)))"
    for n in range(0, 3):
        for its in itertools.product(small, repeat=n):
            for tl in tails:
                if n == 0 and tl is not None: continue
                t = list(its) if tl is None else Dot(list(its), tl)
                text_t = render(BQ(t))
                prog = ("(setq x 'gx) (setq l0 '(g0)) (setq l1 '(g1)) (setq l3 '(g3)) (setq f (let %s (lambda () %s))) "
                        "(let ((direct (let %s %s))) (list (equal (funcall f) direct) (let ((x 'dyn) (l3 '(dyn)) (l1 nil)) (equal (funcall f) direct)) direct))"
                        % (LETB, text_t, LETB, text_t))
                clos.append((prog, {'tmpl': text_t, 'closure': True}))
    # a backquote inside a template is data for the outer one: its unquotes are neither evaluated nor macro-expanded
    # (macro calls known when the text is read, inside the inner unquote / splice / dotted tail / quoted unquote)
    npre = "(setq v 1) (setq x 5) (defmacro inc (v) `(setq ,v (+ ,v 1)))"
    nested = []
    for inner in ["`(b ,(inc v))", "`(b ,@(-> v list))", "`(b . ,(inc v))", "`(,(inc v) ,',x)", "`(b (c ,(when v (inc v))) ,@(->> v list))", "'`(,(inc v))", "`(b `(c ,(inc v)))", "`(,@(thread-first v (list 1)))"]:
        for outer in ["`(a %s)", "`(a (c %s) ,x)", "`(,x . (%s))", "`(a ,@(list 1 2) %s)", "`(%s %s)"]:
            tmpl = outer.replace('%s', inner)
            datum = outer.replace('`(', '(', 1).replace(',@(list 1 2)', '1 2').replace(',x', '5').replace('%s', inner[1:] if False else '%s')
            # the expected value, written as quoted data with the inner template verbatim
            exp = "'" + outer[1:].replace(',@(list 1 2)', '1 2').replace(',x', '5').replace('%s', inner)
            nested.append(("%s (let ((r %s)) (list (equal r %s) v (prin1-to-string r) (prin1-to-string %s)))" % (npre, tmpl, exp, exp), {'tmpl': tmpl, 'nested': True}))
    # the value of a dotted-tail unquote that is itself an improper list keeps its tail (it goes through append / deep_copy)
    for prog_, exp_ in [("(let ((v '(1 . 2))) (list `(k . ,v) `((count . 3) (range . ,v)) (equal `(k . ,v) (cons 'k v)) v))", "((k 1 . 2) ((count . 3) (range 1 . 2)) t (1 . 2))"),
                        ("(let ((v '(1 2 . 3)) (w '(a . b))) (list `(x y . ,v) `(,@(list 1) . ,w) `((p . ,w) . ,v) (append '(a) v) (append '(a) '(b) w)))", "((x y 1 2 . 3) (1 a . b) ((p a . b) 1 2 . 3) (a 1 2 . 3) (a b a . b))")]:
        nested.append(("%s (let ((r %s)) (list (equal r '%s) v (prin1-to-string r) (prin1-to-string '%s)))" % (npre, prog_, exp_, exp_), {'tmpl': prog_, 'nested': True}))
    rows = run_exprs(res, items, per_case=20)
    rows2 = run_exprs(res, fresh, per_case=10, tag='f')
    rows3 = run_exprs(res, clos, per_case=20, tag='c')
    rows4 = run_exprs(res, nested, per_case=10, tag='n')
    nv = 0
    for text, meta, im, mo in rows4:
        if im is None: continue
        ok_ = False
        if im['kind'] == 'V':
            m = re.match(r'^\(t 1 ("(?:[^"\\]|\\.)*") ("(?:[^"\\]|\\.)*")\)$', im['payload'])
            ok_ = bool(m) and m.group(1) == m.group(2)
        if not ok_:
            nv += 1
            if nv <= 8: res.violation('backquote', {'program': text, 'template': meta['tmpl'], 'impl': im,
                                                    'why': 'a template nested in a template is not returned as written (its unquotes evaluated or macro-expanded), or a variable changed'})
    res.cov['nested_templates'] = len(nested)
    for text, meta, im, mo in rows3:
        if im is None: continue
        if im['kind'] != 'V' or not im['payload'].startswith('(t t '):
            nv += 1
            if nv <= 8: res.violation('backquote-closure', {'program': text, 'template': meta['tmpl'], 'impl': im,
                                                            'why': 'a template evaluated in a closure differs from its evaluation where the closure was created'})
    res.cov['closure_templates'] = len(clos)
    distinct = set()
    for text, meta, im, mo in rows:
        if im is None: continue
        distinct.add(im['payload'][:60] if im['kind'] == 'V' else (im['kind'], meta['tmpl'][:20]))
        if im['kind'] == 'V':
            m = re.search(r' (t|nil) (t|nil) \(5 nil \(one\) \(p q r\)\)\)$', im['payload'])
            why = None
            if not m: why = 'source variables changed by evaluating the template'
            elif m.group(1) != 't': why = 'two evaluations of one template are not equal'
            elif m.group(2) != 't': why = 'value differs from the equivalent list/cons/append construction'
            # each unquote evaluated exactly once per evaluation, left to right
            tl = [int(a) for a, _ in (im['ticks'] or [])]
            n = meta['nticks']
            if why is None and n and tl != list(range(1, n + 1)) * 2: why = 'unquoted parts not evaluated once each, left to right: %s' % tl
            if why:
                nv += 1
                if nv <= 8: res.violation('backquote', {'program': text, 'template': meta['tmpl'], 'impl': im, 'why': why})
    for text, meta, im, mo in rows2:
        if im is None: continue
        if im['kind'] != 'V' or 't' in re.sub(r'[()]', ' ', im['payload']).split():
            nv += 1
            if nv <= 8: res.violation('backquote-sharing', {'program': text, 'impl': im, 'why': 'results of two evaluations share cells with each other or with a spliced list'})
    res.cov['distinct_nontrivial'] = len(distinct)
    res.cov['exhaustive_templates'] = nex
    res.cov['rule'] = ('exhaustive: all templates of up to %d items over {atom, symbol, ,x, ,list, ,@nil, ,@one, ,@many, sublist with unquote, sublist of a splice, quoted unquote} x tail {none, ,x, ,list, atom}; '
                       'random nested templates (depth 2) with ticked unquotes; each template is evaluated twice through a function; oracle: equal to the list/append construction, both results equal, '
                       'unquotes logged once each in order, spliced and read variables unchanged afterwards, spine cells not shared (eq); correspondence with the model' % (tier_n(tier, 3, 4) - 1))
    res.cov['samples'] = [rows[0][1]['tmpl'], rows[len(rows) // 2][1]['tmpl'], rows[-1][1]['tmpl']]
    for d in res.pending:
        res.violation('disagreement', d, no_input=not oracle_confirms(d))
    return res.finish(gate)

CHECKS['C07'] = check_C07

# ---------------------------------------------------------------- C06
def check_C06(tier, seed):
    from .gen import macros
    res = Result('C06', tier, seed); res.pending = []
    gate = proof_gate('C06')
    core.build_model(); core.build_impl()
    rng = random.Random(seed)
    pre = macros.prelude()
    obs = ['a', 'b', 'n', 'x', 's', 'u', 'v', 'w', 'tmp', 'lst', 'e']
    cases = []
    forms = []
    n = tier_n(tier, 700, 20000)
    for i in range(n):
        g = macros.MacroGen(rng)
        f = g.form(rng.choice([1, 2, 3]))
        ft = render(f)
        forms.append(ft)
        c = Case('m%d' % i)
        # ctx 0: evaluate the form directly (twice: expansion must not be destructive)
        c.ctx(0); c.eval(pre); c.eval(ft); c.vars(obs); c.eval(ft); c.vars(obs)
        # ctx 1: evaluate its expansion
        c.ctx(1); c.eval(pre); c.eval("(setq expansion (macroexpand '%s))" % ft); c.eval('(eval expansion)'); c.vars(obs); c.eval('(eval expansion)'); c.vars(obs)
        # ctx 2: expansion text, idempotence, the quoted form is untouched
        c.ctx(2); c.eval(pre)
        c.eval("(macroexpand '%s)" % ft)
        c.eval("(let ((e1 (macroexpand '%s))) (list (equal e1 (macroexpand e1)) (equal (macroexpand ''%s) ''%s)))" % (ft, ft, ft))
        # ctx 3: inside a function body, called twice
        c.ctx(3); c.eval(pre); c.eval('(defun fn () %s)' % ft); c.eval('(fn)'); c.eval('(fn)'); c.vars(obs)
        # ctx 4: ONE form object held in a variable, expanded twice and evaluated twice: expansion and
        # evaluation must not alter the form they are given
        c.ctx(4); c.eval(pre); c.eval("(setq form '%s)" % ft); c.eval('(macroexpand form)'); c.eval('(macroexpand form)')
        c.eval('(eval form)'); c.eval('(eval form)'); c.eval("(equal form '%s)" % ft)
        cases.append(c)
    impl, model, dis = differential(res, cases)
    nv = 0
    distinct = set()
    def obsline(l):
        idx, kind, payload, ticks = core.parse_line(l)
        return core.default_observe(kind, payload, ticks)
    for i, c in enumerate(cases):
        ls = impl.get(c.cid, [])
        if len(ls) < 19: continue
        direct = [obsline(l) for l in ls[1:5]]
        viaexp = [obsline(l) for l in ls[7:11]]
        why = None
        if direct != viaexp: why = 'evaluating the form and evaluating its macro-expansion differ (value, effects or variables)'
        idem = core.parse_line(ls[13])
        if why is None and idem[1] == 'V' and unhx(idem[2]) != '(t t)': why = 'expansion not idempotent or quoted data altered: ' + unhx(idem[2])
        d1 = obsline(ls[1]); 
        f1 = obsline(ls[16])
        if why is None and (d1[0], d1[1]) != (f1[0], f1[1]) and '(inc ' not in forms[i] and 'setq' not in forms[i]:
            why = 'the form inside a function body evaluates differently from the top-level form'
        if why is None and len(ls) >= 26:
            x1, x2, same = core.parse_line(ls[21]), core.parse_line(ls[22]), core.parse_line(ls[25])
            if (x1[1], x1[2]) != (x2[1], x2[2]):
                why = 'expanding the same form object twice gives different expansions'
            elif same[1] == 'V' and unhx(same[2]) != 't':
                why = 'expansion or evaluation altered the form object it was given'
        distinct.add(unhx(core.parse_line(ls[12])[2])[:80] if core.parse_line(ls[12])[1] == 'V' else forms[i][:30])
        if why:
            nv += 1
            if nv <= 8: res.violation('macro', {'form': forms[i], 'why': why, 'requests': c.readable(), 'impl': [decode_line(l) for l in ls], 'raw_case': c.text()})
    # built-in macros against their definitions (explicit equivalent forms)
    eq_items = []
    def same(a, b): eq_items.append(('%s (list (progn %s) (progn %s))' % (pre, a, b), {'a': a, 'b': b}))
    for _ in range(tier_n(tier, 150, 3000)):
        e1 = rng.choice(['1', 'nil', 'a', "(car '(5))", "(cdr '(5))"]); e2 = rng.choice(['2', 'nil', 'b', '(+ u 1)'] if True else [])
        th = rng.choice(["(list u v)", "'then", "(+ 1 2)"]); el = rng.choice(["'else", "(list 'e u)", "nil"])
        e2s = e2 if 'u' not in e2 or e1 not in ('nil', "(cdr '(5))") else '2'
        same('(if-let* ((u %s) (v %s)) %s %s)' % (e1, e2s, th.replace('u v', 'u v'), el.replace(' u', ' 0')),
             '(let ((u %s)) (if u (let ((v %s)) (if v %s %s)) %s))' % (e1, e2s, th, el.replace(' u', ' 0'), el.replace(' u', ' 0')))
        same('(if-let ((u %s)) %s %s)' % (e1, th.replace(' v', ''), el.replace(' u', ' 0')),
             '(let ((u %s)) (if u %s %s))' % (e1, th.replace(' v', ''), el.replace(' u', ' 0')))
        same('(when-let ((u %s)) 1 %s)' % (e1, th.replace(' v', '')), '(let ((u %s)) (if u (progn 1 %s)))' % (e1, th.replace(' v', '')))
        same('(when %s 1 2)' % e1, '(if %s (progn 1 2))' % e1)
        same('(unless %s 1 2)' % e1, '(if %s nil 1 2)' % e1)
        x = rng.choice(['5', 'n', '(+ 1 2)'])
        same('(-> %s (- 1) (list 9) 1+)' % x if False else '(-> %s (- 1) (list 9))' % x, '(list (- %s 1) 9)' % x)
        same('(->> %s (- 1) (list 9))' % x, '(list 9 (- 1 %s))' % x)
        same('(thread-first %s 1+ (* 2))' % x, '(* (1+ %s) 2)' % x)
        same('(thread-last %s 1+ (- 20))' % x, '(- 20 (1+ %s))' % x)
        same('(-> %s)' % x, x)
        same("(let ((l '(1 2 nil 4)) (acc 0)) (while-let ((e (car l))) (setq l (cdr l)) (setq acc (+ acc e))) (list l acc))",
             "(let ((l '(1 2 nil 4)) (acc 0)) (while (let ((e (car l))) (if e (progn (setq l (cdr l)) (setq acc (+ acc e)) t))) ) (list l acc))")
    rows = run_exprs(res, eq_items, per_case=20, tag='b')
    for text, meta, im, mo in rows:
        if im is None: continue
        if im['kind'] == 'V':
            m = im['payload']
            # (A B): both halves must print the same
            inner = m[1:-1]
            half = len(inner) // 2
            if not (len(inner) % 2 == 1 and inner[:half] == inner[half + 1:]):
                nv += 1
                if nv <= 8: res.violation('builtin-macro', {'macro_form': meta['a'], 'definition': meta['b'], 'impl': im, 'why': 'built-in macro and its definition evaluate differently'})
        elif im['kind'] != 'E':
            nv += 1
    replay_known(res, 'C06')
    res.cov['distinct_nontrivial'] = len(distinct)
    res.cov['rule'] = ('random forms (depth 1-3) using 11 user macros (defmacro with &optional/&rest, backquote templates, macros expanding to macros) and all built-in macros in arguments, bodies, '
                       'let/cond/lambda, with quoted data containing macro names; per form four contexts: eval twice; macroexpand then eval twice; expansion text + idempotence + quoted form untouched; '
                       'inside a defun called twice; one form object held in a variable expanded twice and evaluated twice (the object must stay equal to its text). Oracle (implementation only): direct = via expansion on value, tick log and variables; (equal e (macroexpand e)); built-in macros = explicit equivalent forms. '
                       'Correspondence: all transcripts equal the model')
    res.cov['samples'] = forms[:3]
    for d in res.pending:
        res.violation('disagreement', d, no_input=not oracle_confirms(d))
    return res.finish(gate)

CHECKS['C06'] = check_C06

# ---------------------------------------------------------------- C05
def check_C05(tier, seed):
    res = Result('C05', tier, seed); res.pending = []
    gate = proof_gate('C05')
    core.build_model(); core.build_impl()
    rng = random.Random(seed)
    items = []
    def add(texts, exp, tag): items.append((texts, {'exp': exp, 'tag': tag}))
    VALS = [1, 7, "'sym", '"str"', "'(1 2)", 'nil']
    def pv(v): return str(v).lstrip("'")
    for _ in range(tier_n(tier, 400, 10000)):
        vx, vy = rng.choice(VALS), rng.choice(VALS)
        binder = rng.choice(['let', 'let*', 'param', 'nested-let'])
        body = rng.choice([
            ('(list x y p gz)', lambda a, gz: '(%s %s %s %s)' % (pv(vx), pv(vy), a, gz)),
            ('(list (car (list x)) (if t y) (cons p gz))', lambda a, gz: '(%s %s (%s . %s))' % (pv(vx), pv(vy), a, gz)),
            ('`(,x (,y) ,p . ,gz)', lambda a, gz: '(%s (%s) %s . %s)' % (pv(vx), pv(vy), a, gz)),
            ('(let ((w x)) (list w y p gz))', lambda a, gz: '(%s %s %s %s)' % (pv(vx), pv(vy), a, gz)),
            ('(progn (list x y p gz))', lambda a, gz: '(%s %s %s %s)' % (pv(vx), pv(vy), a, gz)),
            ('(funcall (lambda (q) (list x y q gz)) p)', lambda a, gz: '(%s %s %s %s)' % (pv(vx), pv(vy), a, gz)),
            ('(cond (nil 0) (t (list x y p gz)))', lambda a, gz: '(%s %s %s %s)' % (pv(vx), pv(vy), a, gz)),
        ])
        lam = '(lambda (p) %s)' % body[0]
        if binder == 'let': mk = '(setq f (let ((x %s) (y %s)) %s))' % (vx, vy, lam)
        elif binder == 'let*': mk = '(setq f (let* ((x %s) (y %s)) %s))' % (vx, vy, lam)
        elif binder == 'param': mk = '(defun mk (x y) %s) (setq f (mk %s %s))' % (lam, vx, vy)
        else: mk = '(setq f (let ((x %s)) (let ((y %s)) %s)))' % (vx, vy, lam)
        gz = rng.choice(['100', 'gg'])
        pre = "(setq gz %s)" % ("'gg" if gz == 'gg' else gz)
        ctxs = rng.sample([
            ('(funcall f %s)', lambda: None), ("(progn (setq x 'other) (funcall f %s))", None), ("(let ((x 'shadow) (y 'shadow2)) (funcall f %s))", None),
            ("(let ((y 0)) (let ((x 0)) (funcall f %s)))", None), ("(mapcar f (list %s))", 'map'), ("(progn (setq y 'glob-y) (funcall f %s))", None),
            ("(let ((gz 'dyn)) (funcall f %s))", 'dyn'), ("(funcall (lambda (x y) (funcall f %s)) 'px 'py)", None)], rng.choice([1, 2, 3, 4]))
        texts = [pre + ' ' + mk]
        exps = [None]
        for k, (ct, mode) in enumerate(ctxs):
            arg = str(10 + k)
            texts.append(ct % arg)
            e = body[1](arg, 'dyn' if mode == 'dyn' else gz)
            exps.append('(%s)' % e if mode == 'map' else e)
        add(texts, exps, 'read-' + binder)
    # private state persists between calls and is invisible outside
    for _ in range(tier_n(tier, 150, 3000)):
        k = rng.choice([1, 2, 3, 4]); start = rng.choice([0, 5, -2])
        step = rng.choice([1, 2])
        var = rng.choice(['c', 'x'])
        mk = "(setq %s 'global) (setq ctr (let ((%s %d)) (lambda () (setq %s (+ %s %d)))))" % (var, var, start, var, var, step)
        texts = [mk]; exps = [None]
        for i in range(1, k + 1):
            t = rng.choice(['(funcall ctr)', "(let ((%s 1000)) (funcall ctr))" % var, "(car (mapcar (lambda (ignored) (funcall ctr)) '(0)))"])
            texts.append(t); exps.append(str(start + step * i))
        texts.append(var); exps.append('global')
        add(texts, exps, 'counter')
    # two closures from one function do not share; own parameters and free variables resolve normally
    fixed = [
        (["(defun mk (x) (lambda () x))", "(setq f1 (mk 1))", "(setq f2 (mk 2))", "(list (funcall f1) (funcall f2) (funcall f1))"], [None, None, None, '(1 2 1)']),
        (["(setq f (let ((p 9)) (lambda (p) p)))", "(funcall f 3)", "(let ((p 4)) (funcall f 5))"], [None, '3', '5']),
        (["(setq f (lambda () gfree))", "(setq gfree 1)", "(funcall f)", "(let ((gfree 2)) (funcall f))", "(setq gfree 3)", "(funcall f)"], [None, None, '1', '2', None, '3']),
        (["(setq f (let ((x 1)) (lambda () (lambda () x))))", "(setq g (funcall f))", "(let ((x 50)) (funcall g))"], [None, None, '1']),
        (["(setq f (let ((x 1)) (lambda () (setq x (+ x 1)) (lambda () x))))", "(setq g1 (funcall f))", "(setq g2 (funcall f))", "(list (funcall g1) (funcall g2))"], [None, None, None, '(2 3)']),
        (["(setq fs (let ((x 1)) (list (lambda () (setq x (+ x 10))) (lambda () x))))", "(funcall (car fs))", "(funcall (cadr fs))"], [None, '11', None]),
        (["(setq f (let ((x 5)) (lambda (&optional o &rest r) (list x o r))))", "(funcall f)", "(funcall f 1 2 3)"], [None, '(5 nil nil)', '(5 1 (2 3))']),
        (["(defun outer (x) (let ((y (* x 2))) (lambda (z) (list x y z))))", "(setq f (outer 4))", "(let ((x 0) (y 0) (z 0)) (funcall f 9))"], [None, None, '(4 8 9)']),
        (["(setq f (let ((x 'cap)) (lambda () (list 'x x))))", "(funcall f)"], [None, '(x cap)']),
        (["(setq f (let ((x 1)) (lambda () (let ((x (+ x 1))) x))))", "(funcall f)", "(funcall f)"], [None, '2', '2']),
        (["(setq f (let ((x 1)) (lambda () (dotimes (x 3) x) x)))", "(funcall f)"], [None, '1']),
        (["(setq x 'glob)", "(setq f (let ((x 1)) (lambda () (g-reads-x))))", "(defun g-reads-x () x)", "(funcall f)"], [None, None, None, 'glob']),
    ]
    fixed += [
        (["(defun step (v) (+ v 1))", "(setq f (let ((step (lambda (v) (* v 3)))) (lambda (n) (eval '(step (step n))))))", "(list (funcall f 2) (step 2))"], [None, None, '(18 3)']),
        (["(defun step (v) (+ v 1)) (setq f (let ((step (lambda (v) (* v 3)))) (lambda (n) (eval '(step n))))) (let ((step nil)) (funcall f 5))"], ['15']),
        (["(setq op 'not-a-function)", "(setq f (let ((op (lambda (a b) (- a b)))) (lambda (a b) (eval '(op a b)))))", "(funcall f 10 4)"], [None, None, '6']),
        (["(defun step (v) (+ v 1))", "(setq f (let ((step (lambda (v) (* v 3)))) (lambda (n) (list (step n) (funcall step n) (mapcar step (list n))))))", "(funcall f 2)"], [None, None, '(6 6 (6))']),
        (["(defun hd (v) (car v))", "(setq f (let ((hd (lambda (v) (cdr v)))) (lambda (n) (list (hd n) `(,(hd n)) (eval `(hd ',n))))))", "(funcall f '(1 2))"], [None, None, "((2) ((2)) (2))"]),
    ]
    # a captured variable that holds a function, used as a quoted function designator by the sequence functions
    fixed += [
        (["(setq f (let ((op (lambda (v) (* v 3)))) (lambda (l) (mapcar 'op l))))", "(funcall f '(1 2))"], [None, '(3 6)']),
        (["(defun op (v) (+ v 100))", "(setq f (let ((op (lambda (v) (* v 3)))) (lambda (l) (mapcar #'op l))))", "(funcall f '(1 2))", "(let ((op (lambda (v) 0))) (funcall f '(1)))"], [None, None, '(3 6)', '(3)']),
        (["(setq f (let ((pred (lambda (v) (> v 1)))) (lambda (l) (seq-filter 'pred l))))", "(funcall f '(1 2 3))", "(let ((pred (lambda (v) nil))) (funcall f '(1 2 3)))"], [None, '(2 3)', '(2 3)']),
        (["(setq f (let ((op (lambda (a b) (+ a b)))) (lambda (l) (seq-reduce 'op l 10))))", "(funcall f '(1 2))", "(defun op (a b) 0)", "(funcall f '(1 2))"], [None, '13', None, '13']),
        (["(setq f (let ((lt (lambda (a b) (< a b)))) (lambda (l) (sort l 'lt))))", "(funcall f '(3 1 2))", "(let ((lt (lambda (a b) (> a b)))) (funcall f '(3 1 2)))"], [None, '(1 2 3)', '(1 2 3)']),
        (["(setq f (let ((pred (lambda (v) (> v 1)))) (lambda (l) (seq-find #'pred l))))", "(funcall f '(1 2 3))"], [None, '2']),
        (["(defun mk (fn) (lambda (l) (mapcar 'fn l)))", "(setq f (mk (lambda (v) (list v))))", "(funcall f '(1 2))", "(defun fn (v) 'global)", "(funcall f '(1))"], [None, None, '((1) (2))', None, '((1))']),
    ]
    # nested closures: the inner closure captures the outer cell again (C05_outer_cell_recaptured): it starts from the value the
    # outer cell has when the inner one is created, and its assignments stay its own
    fixed += [
        (["(setq mk (let ((n 0)) (lambda () (setq n (+ n 10)) (lambda () (setq n (+ n 1)) n))))", "(setq a (funcall mk))", "(setq b (funcall mk))", "(list (funcall a) (funcall a) (funcall b) (funcall a))"], [None, None, None, '(11 12 21 13)']),
        (["(setq mk (let ((x 1)) (lambda (p) (lambda (x) (list x p)))))", "(funcall (funcall mk 2) 3)", "(let ((p 9)) (funcall (funcall mk 2) 3))"], [None, '(3 2)', '(3 2)']),
        (["(setq mk (let ((x 1) (y 2)) (lambda () (let ((z (+ x y))) (lambda () (list x y z))))))", "(setq x 10) (setq y 20) (setq z 30)", "(funcall (funcall mk))"], [None, None, '(1 2 3)']),
    ]
    # two different symbols with the same print name (an interned variable and the uninterned one a hygienic macro binds),
    # both locally bound where the lambda is created: one cell each
    fixed += [
        (["(defmacro mk-priv (v) (let ((s (make-symbol \"n\"))) `(let ((,s ,v)) (lambda (k) (setq ,s (+ ,s k)) (list n ,s)))))", "(setq f (let ((n 1)) (mk-priv 10)))", "(funcall f 5)", "(funcall f 5)",
          "(setq n 100)", "(let ((n 7)) (funcall f 0))"], [None, None, '(1 15)', '(1 20)', None, '(1 20)']),
        (["(defmacro mk-priv2 (v) (let ((s (make-symbol \"n\"))) `(let ((,s ,v)) (lambda () (setq n (+ n 1)) (list ,s n)))))", "(setq f (let ((n 1)) (mk-priv2 10)))", "(funcall f)", "(funcall f)"],
         [None, None, '(10 2)', '(10 3)']),
        (["(setq f (let ((a (make-symbol \"x\")) (b (make-symbol \"x\"))) (eval (list 'let (list (list a 1) (list b 2) '(x 3)) (list 'lambda nil (list 'list a b 'x))))))", "(funcall f)", "(let ((x 9)) (funcall f))"],
         [None, '(1 2 3)', '(1 2 3)']),
    ]
    for t, e in fixed: add(t, e, 'fixed')
    cases = []
    for i, (texts, meta) in enumerate(items):
        c = Case('c%d' % i)
        for t in texts: c.eval(t)
        cases.append(c)
    impl, model, dis = differential(res, cases)
    nv = 0
    distinct = set()
    for c, (texts, meta) in zip(cases, items):
        ls = impl.get(c.cid, [])
        for k, (t, e) in enumerate(zip(texts, meta['exp'])):
            if e is None or k >= len(ls): continue
            _, kind, payload, _ = core.parse_line(ls[k])
            got = unhx(payload) if kind == 'V' else kind
            distinct.add((meta['tag'], t[:50], got[:30]))
            if got != e:
                nv += 1
                if nv <= 8: res.violation('closure', {'history': texts, 'request': t, 'expected': e, 'got': got, 'class': meta['tag']})
                break
    # random programs with closures through the general generator
    g_cases, stats = gen_histories(rng, tier_n(tier, 300, 8000), allow={'let', 'funcall', 'setq', '+', 'call', 'if', 'progn', 'seq-reduce', 'mapcar', 'list', 'cons', 'dolist', 'dotimes'})
    differential(res, g_cases)
    res.cov['distinct_nontrivial'] = len(distinct)
    res.cov['rule'] = ('closure templates: captured variables bound by let / let* / nested let / function parameter; occurrences in calls, conditionals, backquote (incl. dotted tail), inner let, inner lambda; '
                       '1-4 later calls in contexts where the same names are assigned, shadowed by let or by parameters, or dynamically rebound (free variable gz must follow the caller); counters whose state persists '
                       'and stays invisible; sibling closures; nested closures; oracle: values computed from the template; plus random programs; correspondence with the model on every request')
    res.cov['samples'] = [items[0][0], items[len(items) // 2][0]]
    replay_known(res, 'C05')
    for d in res.pending:
        res.violation('disagreement', d, no_input=not oracle_confirms(d))
    return res.finish(gate)

CHECKS['C05'] = check_C05

# ---------------------------------------------------------------- C04
class TailGen:
    def __init__(self, rng, name='f', shape='req'):
        self.r = rng; self.name = name; self.tid = 0; self.has_nontail = False; self.shape = shape
        self.free_reads = False
    def tk(self, e):
        if self.r.random() < 0.25:
            self.tid += 1; return ['tick', self.tid, e]
        return e
    def cond_e(self):
        return self.r.choice([['<', ['mod', 'n', 3], 1], ['<', ['mod', 'n', 2], 1], ['>', 'acc', 100], ['<', ['mod', ['+', 'n', 'acc'], 4], 2], True, None])
    def acc_e(self):
        # m and k are global variables (preset to 0) that let / let* forms of the body may rebind: reading them
        # free shows whether the callee still sees the caller's let bindings (dynamic scope)
        if self.free_reads and self.r.random() < 0.12: return self.tk(['+', 'acc', self.r.choice(['m', 'k'])])
        return self.tk(self.r.choice([['+', 'acc', 'n'], ['+', 'acc', 1], ['*', 2, ['mod', 'acc', 1000]], 'acc', ['-', 'acc', 'n'], ['+', 'n', 1]]))
    def selfcall(self):
        r = self.r
        n1 = r.choice([['-', 'n', 1], ['1-', 'n'], ['-', 'n', 1]])
        a = self.acc_e()
        # argument expressions may permute / re-read / shadow the parameters
        if r.random() < 0.2: a = ['let', [['n', 'acc']], ['+', 'n', 1]]
        if r.random() < 0.15: a = ['progn', ['setq', 'g', ['+', 'g', 1]], a]
        if self.shape == 'req': return [self.name, n1, a]
        if self.shape == 'opt': return [self.name, n1, a] if r.random() < 0.8 else [self.name, n1]
        return [self.name, n1, a, 'n']                      # &rest collects the extra
    def base(self):
        if self.free_reads and self.r.random() < 0.15: return self.tk(['list', 'acc', 'm', 'k'])
        # nil results matter: a self-call used as the test of a body-less cond clause falls through only when it yields nil
        if self.r.random() < 0.2: return self.r.choice([None, ['if', ['<', ['mod', 'acc', 2], 1], None, 'acc']])
        return self.tk(self.r.choice(['acc', ['list', 'acc', 'n'], ['+', 'acc', 0], ['if', ['<', ['mod', 'acc', 3], 1], None, 'acc'], ['if', ['<', 'acc', 2], ['nofn'], 'acc']]))
    def tail(self, d):
        r = self.r
        if d <= 0: return self.selfcall() if r.random() < 0.7 else self.base()
        c = r.choice(['if', 'if1', 'cond', 'progn', 'let', 'let*', 'when', 'unless', 'self', 'nontail', 'and', 'err'])
        if c == 'err': return ['if', ['<', 'n', r.choice([2, 3])], ['nofn'], self.tail(d - 1)]
        if c == 'if': return ['if', self.cond_e(), self.tail(d - 1), self.tail(d - 1)]
        if c == 'if1':
            if r.random() < 0.4:
                # the self-call is a non-final else form: an ordinary call whose value is dropped, not a tail call
                self.has_nontail = True; self.branching = True       # two self-calls per activation: 2^n activations
                return ['if', self.cond_e(), self.tail(d - 1), self.selfcall(), ['setq', 'g', ['+', 'g', 1]], self.tail(d - 1)]
            return ['if', self.cond_e(), self.tail(d - 1), ['setq', 'g', ['+', 'g', 1]], self.tail(d - 1)]
        if c == 'cond':
            cl = [[self.cond_e(), self.tail(d - 1)] for _ in range(r.choice([1, 2, 3]))]
            if r.random() < 0.3: cl.insert(r.randrange(len(cl) + 1), [self.cond_e()])
            if r.random() < 0.35:
                self.has_nontail = True
                cl.insert(r.randrange(len(cl) + 1), [self.selfcall()])       # body-less clause: the self-call is a test, not a tail
            cl.append([True, self.tail(d - 1)])
            return ['cond'] + cl
        if c == 'progn': return ['progn', ['setq', 'g', ['+', 'g', 'n']], self.tail(d - 1)]
        if c == 'let': return ['let', [[r.choice(['m', 'acc', 'k']), self.acc_e()]], self.tail(d - 1)]
        if c == 'let*': return ['let*', [['m', ['+', 'n', 0]], ['k', ['+', 'm', 'acc']]], self.tail(d - 1)]
        if c == 'when': return ['when', self.cond_e(), ['setq', 'g', ['+', 'g', 1]], self.tail(d - 1)]
        if c == 'unless': return ['unless', self.cond_e(), self.tail(d - 1)]
        if c == 'self': return self.selfcall()
        if c == 'and': self.has_nontail = True; return ['and', True, self.selfcall()]       # not a recognised tail position: ordinary call
        self.has_nontail = True
        return r.choice([['+', 1, self.selfcall()], ['car', ['list', self.selfcall()]], ['progn', self.selfcall(), self.base()]])
    def defun(self, depth):
        ps = {'req': ['n', 'acc'], 'opt': ['n', '&optional', 'acc'], 'rest': ['n', 'acc', '&rest', 'more']}[self.shape]
        guard_acc = 'acc' if self.shape != 'opt' else ['or', 'acc', 0]
        body = self.tail(depth)
        if self.shape == 'opt': body = ['let', [['acc', ['or', 'acc', 0]]], body]
        return ['defun', self.name, ps, ['if', ['<', 'n', 1], guard_acc, body]]

# hand-written recursive definitions for corners that random generation reaches only now and then
CANON_REC = [
    # a self-call as the test of a body-less cond clause: not a tail position; nil falls through to the next clause
    ['defun', 'f', ['n', 'acc'], ['cond', [['<', 'n', 1], None], [['f', ['-', 'n', 1], 'acc']], [True, ['setq', 'g', ['+', 'g', 1]], ['list', 'n', 'acc']]]],
    ['defun', 'f', ['n', 'acc'], ['if', ['<', 'n', 1], ['if', ['<', ['mod', 'acc', 2], 1], None, 'acc'], ['cond', [['f', ['-', 'n', 1], ['+', 'acc', 1]]], [['<', 'n', 3], ['list', 'n', 'g']], [True, ['f', ['-', 'n', 2], 'acc']]]]],
    ['defun', 'f', ['n', '&optional', 'acc'], ['progn', ['setq', 'g', ['+', 'g', 'n']], ['let', [['m', 'n']], ['cond', [['<', 'n', 1], 'acc'], [['f', ['-', 'n', 1]]], [True, ['list', 'm', 'acc', 'g']]]]]],
    # &optional left out by the tail call; &rest collecting; arguments that permute the parameters
    ['defun', 'f', ['n', '&optional', 'acc', 'o2'], ['if', ['<', 'n', 1], ['list', 'acc', 'o2'], ['if', ['<', ['mod', 'n', 2], 1], ['f', ['-', 'n', 1], 'n'], ['f', ['-', 'n', 1], 'acc', 'n']]]],
    ['defun', 'f', ['n', 'acc', '&rest', 'more'], ['if', ['<', 'n', 1], ['list', 'acc', 'more'], ['f', ['-', 'n', 1], ['car', 'more'], 'acc', 'n']]],
    ['defun', 'f', ['n', 'acc'], ['if', ['<', 'n', 1], 'acc', ['f', ['-', 'n', 1], ['let', [['n', 'acc']], ['+', 'n', 1]]]]],
    # non-final forms of an if's else part and of an unless body are not tail positions (a tree walk)
    ['defun', 'f', ['n', 'acc'], ['if', ['<', 'n', 1], ['progn', ['setq', 'g', ['+', 'g', 1]], 'acc'], ['f', ['-', 'n', 2], 'acc'], ['f', ['-', 'n', 1], ['+', 'acc', 1]]]],
    ['defun', 'f', ['n', 'acc'], ['unless', ['<', 'n', 1], ['setq', 'g', ['+', 'g', 'n']], ['let', [['m', ['-', 'n', 2]]], ['f', 'm', 'acc']], ['f', ['-', 'n', 1], ['+', 'acc', 'g']]]],
    # tail positions under when / unless / let* / nested cond; a non-tail call under and
    ['defun', 'f', ['n', 'acc'], ['cond', [['<', 'n', 1], 'acc'], [['<', ['mod', 'n', 2], 1], ['when', True, ['unless', None, ['let*', [['a1', ['+', 'acc', 1]], ['a2', ['+', 'a1', 'n']]], ['f', ['-', 'n', 1], 'a2']]]]], [True, ['and', True, ['f', ['-', 'n', 1], 'acc']]]]],
]

def untail(x, name):
    """The same definition with every direct self-call written (funcall 'name ...): ordinary recursion."""
    from .gen.sexp import Wrap, Dot
    if isinstance(x, list) and x:
        if x[0] == name: return ['funcall', Q(name)] + [untail(a, name) for a in x[1:]]
        if x[0] == 'defun': return x[:3] + [untail(a, name) for a in x[3:]]
        return [untail(a, name) for a in x]
    if isinstance(x, Wrap): return x
    return x

def rename_tail_lets(x, params, counter=None, tail=True):
    """The definition with the variable of every let / let* that encloses a tail position renamed apart inside its
    scope (an alpha-renaming under the lexical reading): returns (renamed, number of renamed binders)."""
    from .gen.sexp import Wrap
    if counter is None: counter = [0]
    def subst(e, a, b):
        if e == a: return b
        if isinstance(e, list): return [subst(i, a, b) for i in e]
        return e
    if not isinstance(x, list) or not x: return x, counter[0]
    h = x[0]
    if h == 'defun':
        body = x[3:]
        out = [rename_tail_lets(b, params, counter, tail=(j == len(body) - 1))[0] for j, b in enumerate(body)]
        return x[:3] + out, counter[0]
    if not tail: return x, counter[0]
    if h in ('let', 'let*') and len(x) >= 3 and isinstance(x[1], list):
        binds = [list(b) for b in x[1]]; body = list(x[2:])
        for j, b in enumerate(binds):
            v = b[0]
            if v in params or not isinstance(v, str): continue
            counter[0] += 1; nv_ = '%s--%d' % (v, counter[0])
            binds[j][0] = nv_
            for j2 in range(j + 1, len(binds)): binds[j2] = [binds[j2][0]] + [subst(e, v, nv_) for e in binds[j2][1:]]
            body = [subst(e, v, nv_) for e in body]
        body = [rename_tail_lets(b, params, counter, tail=(j == len(body) - 1))[0] for j, b in enumerate(body)]
        return [h, binds] + body, counter[0]
    if h == 'if': return [h, x[1]] + [rename_tail_lets(b, params, counter, True)[0] for b in x[2:3]] + [rename_tail_lets(b, params, counter, j == len(x[3:]) - 1)[0] for j, b in enumerate(x[3:])], counter[0]
    if h in ('progn', 'when', 'unless'):
        k0 = 1 if h == 'progn' else 2
        return x[:k0] + [rename_tail_lets(b, params, counter, j == len(x[k0:]) - 1)[0] for j, b in enumerate(x[k0:])], counter[0]
    if h == 'cond':
        return [h] + [([cl[0]] + [rename_tail_lets(b, params, counter, j == len(cl[1:]) - 1)[0] for j, b in enumerate(cl[1:])]) if isinstance(cl, list) and cl else cl for cl in x[1:]], counter[0]
    return x, counter[0]

def check_C04(tier, seed):
    res = Result('C04', tier, seed); res.pending = []
    gate = proof_gate('C04')
    core.build_model(); core.build_impl(); core.build_impl(release=True)
    rng = random.Random(seed)
    cases = []; metas = []
    nprog = tier_n(tier, 400, 10000)
    PRE = '(setq g 0) (setq m 0) (setq k 0) '
    vars_ = ['n', 'acc', 'm', 'k', 'g', 'more']
    def two_variants(tag, i, d, calls):
        out = []
        for variant, dd in (('t', d), ('u', untail(d, 'f'))):
            c = Case('%s%s%d' % (tag, variant, i))
            c.eval(PRE + render(dd)); c.vars(vars_)
            for cl in calls:
                c.eval(render(cl)); c.vars(vars_)
            out.append(c)
        return out
    for i in range(nprog):
        shape = rng.choice(['req', 'req', 'opt', 'rest'])
        g = TailGen(rng, 'f', shape)
        g.free_reads = rng.random() < 0.5
        d = g.defun(rng.choice([1, 2, 3, 4]))
        if i < len(CANON_REC): d = CANON_REC[i]; g.has_nontail = True; g.free_reads = False
        branching = getattr(g, 'branching', False) or i < len(CANON_REC)       # tree walks: the number of activations is exponential in n
        calls = []
        for _ in range(3):
            n = rng.choice([0, 1, 2, 3, 5, 8, 11] if branching else [0, 1, 2, 3, 5, 8, 13, 30])
            route = rng.choice(['direct', 'funcall', 'mapcar', 'direct'])
            if route == 'direct': calls.append(['f', n, 0])
            elif route == 'funcall': calls.append(['funcall', Q('f'), n, 1])
            else: calls.append(['mapcar', ['lambda', ['e'], ['f', 'e', 0]], Q([0, 1, n])])
        cases += two_variants('', i, d, calls)
        metas.append({'defun': render(d), 'nontail': g.has_nontail, 'shape': shape, 'sexp': d, 'calls': calls, 'free_reads': g.free_reads})
    impl, model, dis = differential(res, cases)
    nv = 0
    distinct = set()
    def obsl(l):
        idx, kind, payload, ticks = core.parse_line(l)
        return core.default_observe(kind, payload, ticks)
    differing = []
    for i, meta in enumerate(metas):
        a = [obsl(l) for l in impl.get('t%d' % i, [])][1:]
        b = [obsl(l) for l in impl.get('u%d' % i, [])][1:]
        distinct.add((meta['defun'][:60], tuple(x[1] for x in a)))
        if a != b: differing.append(i)
    # A difference that disappears when the variables of the let / let* forms enclosing a tail position are renamed
    # apart is the listed finding D35 (the loop leaves the let before the next activation runs; ordinary recursion
    # runs it inside, and tulisp variables are dynamically scoped); every other difference is a violation.
    rcases = []; rmeta = {}
    for i in differing:
        meta = metas[i]
        params = [p_ for p_ in meta['sexp'][2] if not p_.startswith('&')]
        dr, nren = rename_tail_lets(meta['sexp'], params)
        if nren:
            rmeta[i] = render(dr); rcases += two_variants('r', i, dr, meta['calls'])
    rimpl = core.run_side(core.TLIMPL_DEBUG, rcases, announce=True) if rcases else {}
    kf_let = 0; kf_example = None
    for i in differing:
        meta = metas[i]
        if i in rmeta:
            a = [obsl(l) for l in rimpl.get('rt%d' % i, [])][1:]
            b = [obsl(l) for l in rimpl.get('ru%d' % i, [])][1:]
            if a and a == b:
                kf_let += 1; kf_example = kf_example or meta['defun']
                continue
        nv += 1
        if nv <= 8:
            res.violation('tail-meaning', {'defun': meta['defun'], 'why': 'result, side effects or final variables differ from ordinary recursion (the same definition with its self-calls written (funcall \'f ...))',
                                           'renamed_apart': rmeta.get(i),
                                           'trampolined': [decode_line(l) for l in impl.get('t%d' % i, [])], 'ordinary': [decode_line(l) for l in impl.get('u%d' % i, [])]})
    # one-parameter functions with a self tail call, applied by the sequence functions (every call site goes through the loop)
    one = [("(setq g 0) (defun f1 (n) (if (< n 1) (list 'done g) (progn (setq g (+ g 1)) (f1 (- n 1)))))", [("(mapcar 'f1 '(0 1 2 5))", '((done 0) (done 1) (done 3) (done 8))'), ("(seq-map #'f1 '(3))", '((done 11))'), ("(f1 2)", '(done 13)')]),
           ("(defun ev-down (n) (cond ((< n 1) t) ((< n 2) nil) (t (ev-down (- n 2)))))", [("(seq-filter 'ev-down '(0 1 2 3 4 7 10))", '(0 2 4 10)'), ("(seq-find 'ev-down '(1 3 4 5))", '4'), ("(mapcar #'ev-down '(5 6))", '(nil t)'),
                                                                                             ("(seq-find 'ev-down '(1 3) 'none)", 'none'), ("(funcall 'ev-down 20001)", 'nil')]),
           ("(defun last-el (l) (if (consp (cdr l)) (last-el (cdr l)) (car l)))", [("(mapcar 'last-el '((1 2 3) (4) nil))", '(3 4 nil)'), ("(seq-filter 'last-el '((1 nil) (2 3)))", '((2 3))'), ("(seq-reduce (lambda (a l) (+ a (last-el l))) '((1 2) (3 4)) 0)", '6')]),
           ("(defun cnt (n &optional acc) (if (< n 1) (or acc 0) (cnt (- n 1) (+ 1 (or acc 0)))))", [("(mapcar 'cnt '(0 3 10))", '(0 3 10)'), ("(seq-map 'cnt '(200000))", '(200000)')]),
           ("(defun upto (n &rest acc) (if (< n 1) acc (upto (- n 1) n)))", [("(mapcar 'upto '(0 1 3))", '(nil (1) (1))'), ("(seq-filter 'upto '(0 2))", '(2)')]),
           # a self tail call that passes no arguments at all: (Bounce) is a bounce too
           ("(setq i 5) (defun drain () (if (> i 0) (progn (setq i (- i 1)) (drain)) 'done))", [("(list (drain) i)", '(done 0)'), ("(progn (setq i 3) (list (funcall 'drain) i))", '(done 0)'), ("(progn (setq i 2) (mapcar (lambda (e) (drain)) '(1 2)))", '(done done)')]),
           ("(setq c0 0) (defun opt0 (&optional a &rest r) (if a (list a r c0) (progn (setq c0 (+ c0 1)) (if (> c0 3) (opt0 'end) (opt0)))))", [("(opt0)", '(end nil 4)'), ("(progn (setq c0 0) (opt0 nil))", '(end nil 4)')]),
           ("(setq q0 '(1 2 3)) (defun pop-all () (cond ((null q0) 'empty) (t (setq q0 (cdr q0)) (pop-all))))", [("(list (pop-all) q0)", '(empty nil)')])]
    ocases = []
    for j, (d_, calls_) in enumerate(one):
        c = Case('one%d' % j); c.eval(d_)
        for call_, _ in calls_: c.eval(call_)
        ocases.append(c)
    oimpl, omodel, odis = differential(res, ocases)
    for c, (d_, calls_) in zip(ocases, one):
        ls = oimpl.get(c.cid, [])
        for k, (call_, want) in enumerate(calls_):
            got = None
            if k + 1 < len(ls):
                _, kind_, payload_, _ = core.parse_line(ls[k + 1]); got = unhx(payload_) if kind_ == 'V' else kind_
            if got != want:
                nv += 1
                if nv <= 8: res.violation('tail-meaning', {'defun': d_, 'call': call_, 'expected': want, 'got': got, 'why': 'a function with a self tail call gives a different result when a sequence function applies it'})
    replay_known(res, 'C04')
    classifier_hits(res, 'C04', 'c04_let_tail_dynamic', kf_let, kf_example)
    res.cov['dynamic_let_tail_cases'] = kf_let
    res.cov['programs_with_free_reads'] = sum(1 for m_ in metas if m_['free_reads'])
    # --- stack: pure tail-recursive bodies, many iterations on a small stack, both profiles
    stack_cases = []
    canon = [
        "(defun f (n acc) (if (< n 1) acc (f (- n 1) (+ acc 1))))",
        "(defun f (n acc) (cond ((< n 1) acc) ((< (mod n 3) 1) (f (- n 1) (+ acc 2))) ((< (mod n 3) 2) (f (- n 1) acc)) (t (f (- n 1) (+ acc 1)))))",
        "(defun f (n acc) (if (< n 1) acc (progn (setq g n) (let ((m (- n 1))) (let* ((k (+ acc 1))) (f m k))))))",
        "(defun f (n acc) (if (< n 1) acc (if (< (mod n 2) 1) (f (- n 1) (+ acc 1)) (f (- n 1) acc))))",
        "(defun f (n acc) (if (< n 1) acc (when t (unless nil (f (- n 1) (+ acc 1))))))",
        "(defun f (n &optional acc) (if (< n 1) acc (f (- n 1) (+ (or acc 0) 1))))",
        "(defun f (n acc &rest more) (if (< n 1) acc (f (- n 1) (+ acc 1) n n)))",
        "(defun f (n acc) (cond ((< n 1) acc) (t (if (> acc -1) (progn (f (- n 1) (+ acc 1))) (f (- n 1) acc)))))",
    ]
    gens = []
    tries = 0
    while len(gens) < tier_n(tier, 12, 60) and tries < 5000:
        tries += 1
        g = TailGen(rng, 'f', rng.choice(['req', 'req', 'opt', 'rest'])); g.tk = lambda e: e
        d = g.defun(rng.choice([1, 2, 3]))
        if not g.has_nontail and 'list' not in render(d) and '(* 2' not in render(d): gens.append(render(d))
    big = tier_n(tier, 100000, 1000000)
    for j, d in enumerate(canon + gens):
        c = Case('s%d' % j)
        c.eval('(setq g 0) ' + d.replace('(if (< n 1) acc', '(if (< n 1) (progn (probe) acc)', 1).replace('(cond ((< n 1) acc)', '(cond ((< n 1) (probe) acc)', 1))
        c.eval('(f 10 0)'); c.eval('(f 10000 0)'); c.eval('(f %d 0)' % big); c.eval('(nofn)')
        stack_cases.append((c, d))
    j_of = {c.cid: j for j, (c, _) in enumerate(stack_cases)}
    for binary, label in ((core.TLIMPL_DEBUG, 'debug'), (core.TLIMPL_RELEASE, 'release')):
        out = core.run_side(binary, [c for c, _ in stack_cases], env={'TL_STACK_MB': '4', 'TL_STACKPROBE': '1'}, announce=True, timeout=1200)
        for c, d in stack_cases:
            ls = out.get(c.cid, [])
            depths = []
            ok = len(ls) == 5
            # the last request is a call of the undefined function nofn: the only error a generated definition can
            # raise (in its terminating branch, for some n); anything else than a value or that error fails
            nofn = None
            if ok:
                pl5 = core.parse_line(ls[4].rsplit(' S ', 1)[0]) if ' S ' in ls[4] else core.parse_line(ls[4])
                nofn = (pl5[1], pl5[2])
            for l in ls[1:4]:
                m = re.search(r' S (\d+)$', l)
                pl_ = core.parse_line(l.rsplit(' S ', 1)[0]) if ' S ' in l else core.parse_line(l)
                kind = pl_[1]
                if kind != 'V' and (kind, pl_[2]) != nofn: ok = False
                if j_of[c.cid] < len(canon) and kind != 'V': ok = False
                depths.append(int(m.group(1)) if m else None)
            res.cov['evaluations'] += len(ls)
            if not ok:
                nv += 1
                if nv <= 8: res.violation('tail-stack', {'defun': d, 'profile': label, 'why': 'a self tail call did not complete %d iterations on a 4 MiB stack' % big, 'lines': ls})
    res.cov['distinct_nontrivial'] = len(distinct)
    res.cov['stack_iterations'] = big
    res.cov['rule'] = ('%d generated self-recursive definitions (nestings of if / cond incl. body-less clauses / progn / let / let* / when / unless to depth 4, tail and non-tail self-calls mixed, '
                       'required / &optional / &rest parameters, argument expressions that re-read, shadow or assign variables) called directly, via funcall and from mapcar with 0-30 iterations; '
                       'oracle: identical transcript (value, tick log, variables) to the same definition with self-calls written (funcall \'f ..), i.e. ordinary recursion; correspondence with the model; '
                       'stack: %d pure tail-recursive definitions run %d iterations on a 4 MiB thread stack in debug and release' % (nprog, len(stack_cases), big))
    res.cov['samples'] = [m['defun'] for m in metas[:3]]
    for d in res.pending:
        res.violation('disagreement', d, no_input=not oracle_confirms(d))
    return res.finish(gate)

CHECKS['C04'] = check_C04

# ---------------------------------------------------------------- C09
SPAN_RE = re.compile(r'@(-|\d+\.\d+-\d+\.\d+)')

def strip_spans(s): return SPAN_RE.sub('', s)

def check_C09(tier, seed):
    from .gen import data
    res = Result('C09', tier, seed); res.pending = []
    gate = proof_gate('C09')
    core.build_model(); core.build_impl()
    rng = random.Random(seed)
    n = tier_n(tier, 2500, 60000)
    vals = [data.gen_value(rng, rng.choice([0, 1, 2, 3])) for _ in range(n)]
    # literals of different types with the same spelling in one text (integer / string / float / symbol-looking string)
    for _ in range(tier_n(tier, 120, 2000)):
        z = rng.choice([0, 1, -1, 42, -7, 2**63 - 1, -2**63, rng.randrange(-1000, 1000)])
        f = rng.choice([1.5, -0.5, 2.0, 100.0])
        pool = [z, data.Str(str(z)), f, data.Str(data.fmt_float(f)), 'a', data.Str('a'), data.Str('nil'), None, data.Str('t'), True, z, data.Str(str(z))]
        its = [rng.choice(pool) for _ in range(rng.choice([2, 3, 5]))]
        vals.append(its if rng.random() < 0.7 else data.Dot(its[:-1], its[-1] if its[-1] is not None else 0))
    # --- A: reading, in many layouts
    cases = []; metas = []
    for i, v in enumerate(vals):
        toks = data.tokens(v)
        c = Case('r%d' % i)
        texts = [render(v)] + [data.layout(rng, toks, 'as_built') for _ in range(2)]
        for t in texts: c.parse(t)
        # an Emacs-only layout: separators omitted where the Emacs reader does not need them
        te = data.layout(rng, toks, 'emacs')
        c.parse(te)
        cases.append(c); metas.append({'v': v, 'texts': texts + [te]})
    impl, model, dis = differential(res, cases)
    nv = 0; kf = 0
    distinct = set()
    for c, meta in zip(cases, metas):
        exp = data.canon(meta['v'])
        distinct.add(exp[:50])
        for k, l in enumerate(impl.get(c.cid, [])):
            _, kind, payload, _ = core.parse_line(l)
            got = strip_spans(unhx(payload[3:])) if payload.startswith('ok ') else payload
            if got != exp:
                if k == 3 and meta['texts'][3] not in meta['texts'][:3]:
                    kf += 1; continue       # layout admitted by the Emacs grammar only (D15)
                nv += 1
                if nv <= 8: res.violation('read', {'text': meta['texts'][k], 'expected_structure': exp, 'got': got, 'why': 'well-formed text does not read as the value it denotes'})
                break
    # --- B: print then read back
    pcases = []
    for i, v in enumerate(vals):
        c = Case('p%d' % i); c.eval("'" + render(v)); pcases.append(c)
    # floats produced by computation, not by the reader
    comp = ['(* 1.0 10000000000000000)', '(/ 1.0 100000)', '(* 2.5 4)', '(- 0.0 0.0)', '(* -1.0 0.0)', '(expt 10 20)', '(/ 1.0 3)', '(+ 0.1 0.2)', '(* 1e300 1.0)'.replace('1e300', '1' + '0' * 300 + '.0'),
            '(list (* 1.0 100000000000000000000) (/ 3.0 10000000) "a\\\\b" (concat "q" "\\"" "\\\\"))', '(list (1+ 9223372036854775806) (- -9223372036854775807 1))',
            "(list (intern \"ab\") :k 'nil 't (cons 1 2) (cons 1 (cons 2 3)))", '(format "%s\\\\%s" "a" "b")', '(concat "back\\\\slash" "")', '(list (concat "x\\\\" "") (concat "\\\\" "\\\\"))']
    # data lists headed by the names of the reader macros: under a quote they are ordinary lists (read, printed and read again
    # as lists), both written out and consed at run time
    for t_ in ["'(quote a)", "'(x (quote (1 2)) y)", "'(function car)", "'(quote)", "'(quote a b)", "'(quote . a)", "'((quote a) . (quote b))", "'(backquote (a (unquote b)))",
               "(list 'quote 'a)", "(list 'x (list 'quote (list 1 2)) (cons 'quote nil))", "(list (consp '(quote a)) (car '(quote a)) (length '(x (quote (1 2)) y)) (equal '(quote a) (list 'quote 'a)) (cadr '(quote a)))",
               "'(progn (quote a) (function b) (quote (quote c)))", "(cdr '(0 quote a))", "'(1 quote)",
               # quoted lambda lists are data too: macro calls inside them are not expanded while reading
               "'(lambda (x) (-> x (+ 1)))", "'(lambda () (quote b))", "#'(lambda (x) (when x 1))", "'((lambda (y) (->> y (list))) . tail)", "(car '((lambda (z) (unless z 2))))", "'(defun-like (lambda (q) (if-let ((a q)) a)))"]:
        comp.append(t_)
    nq = len(comp) - 20
    for i, t in enumerate(comp):
        c = Case(('q%d' if i < nq else 'k%d') % i); c.eval(t); pcases.append(c)
    impl1 = core.run_side(core.TLIMPL_DEBUG, pcases, announce=True)
    kq = []
    rcases = []; rmeta = []
    for c in pcases:
        ls = impl1.get(c.cid, [])
        if not ls: continue
        _, kind, payload, _ = core.parse_line(ls[0])
        if kind != 'V': 
            if kind in ('P', 'A', 'H'): res.violation('print', {'request': c.readable(), 'impl': ls[0]})
            continue
        printed = unhx(payload)
        if c.cid.startswith('k'):
            kq.append((c, printed)); continue        # the parse hook expands macro calls, (quote ..) included: these go through eval only
        rc = Case('b' + c.cid)
        rc.parse(c.readable()[1][6:] if c.cid.startswith('p') else '0')
        rc.parse(printed)
        rcases.append(rc); rmeta.append({'printed': printed, 'src': c.readable()[1], 'computed': c.cid.startswith('q')})
    impl2, model2, dis2 = differential(res, rcases)
    # printing itself must agree with the model's printer
    modelp = core.run_side(core.TLMODEL, pcases)
    for c in pcases:
        a, b = impl1.get(c.cid, [None])[0], modelp.get(c.cid, [None])[0]
        if a and b and core.default_observe(*core.parse_line(a)[1:]) != core.default_observe(*core.parse_line(b)[1:]):
            res.violation('disagreement', {'request': c.readable(), 'impl': decode_line(a), 'model': decode_line(b), 'correspondence': 'Printer.print'})
    for rc, meta in zip(rcases, rmeta):
        ls = impl2.get(rc.cid, [])
        if len(ls) < 2: continue
        a = core.parse_line(ls[0])[2]; b = core.parse_line(ls[1])[2]
        sa = strip_spans(unhx(a[3:])) if a.startswith('ok ') else a
        sb = strip_spans(unhx(b[3:])) if b.startswith('ok ') else b
        bad = None
        if not b.startswith('ok '): bad = 'printed text does not read back'
        elif not meta['computed'] and sa != sb: bad = 'printed text reads back as a different value'
        elif meta['computed']:
            # type and structure: no float may come back as an integer or a symbol: re-print must be stable
            pass
        if bad:
            nv += 1
            if nv <= 8: res.violation('roundtrip', {'source': meta['src'], 'printed': meta['printed'], 'read_back': sb, 'original': sa, 'why': bad})
    # computed values: print -> read -> print must be a fixed point and keep the types
    fcases = []
    for rc, meta in zip(rcases, rmeta):
        if meta['computed']:
            c = Case('f' + rc.cid); c.eval("'" + meta['printed']); fcases.append((c, meta))
    for c0, printed in kq:
        c = Case('f' + c0.cid); c.eval("'" + printed); fcases.append((c, {'printed': printed, 'src': c0.readable()[1], 'computed': True}))
    outf = core.run_side(core.TLIMPL_DEBUG, [c for c, _ in fcases])
    for c, meta in fcases:
        ls = outf.get(c.cid, [])
        got = unhx(core.parse_line(ls[0])[2]) if ls and core.parse_line(ls[0])[1] == 'V' else None
        if got != meta['printed']:
            nv += 1
            if nv <= 8: res.violation('roundtrip', {'source': meta['src'], 'printed': meta['printed'], 'printed_after_reading_back': got, 'why': 'print / read / print is not a fixed point'})
    replay_known(res, 'C09')
    classifier_hits(res, 'C09', 'c09_as_built_grammar', kf, "(car'(1 2)) : separator omitted between an atom and ( ' \" ` , ;")
    res.cov['distinct_nontrivial'] = len(distinct)
    res.cov['rule'] = ('%d random data values (integers incl. i64 limits, finite floats by literal, by uniform draw and by random bit pattern, strings with quotes / backslashes / newlines / non-ASCII, '
                       'readable symbols, keywords, nil, t, proper and dotted lists, the five quote shorthands, depth <= 3); each read in 4 layouts (canonical, two random with spaces / tabs / newlines / CRLF / comments, '
                       'one Emacs-only layout that omits optional separators = known class); oracle: structure computed from the generator; print-then-read-back through the implementation; computed floats and strings '
                       'print/read/print fixed point; correspondence: reader and printer of the model' % n)
    res.cov['samples'] = [m['texts'][1] for m in metas[:3]]
    for d in res.pending:
        res.violation('disagreement', d, no_input=not oracle_confirms(d))
    return res.finish(gate)

CHECKS['C09'] = check_C09

# ---------------------------------------------------------------- C10
def inventory():
    """Names registered by src/builtin (functions, special forms, macros), read from the current source."""
    names = set()
    root = os.path.join(core.REPO, 'src', 'builtin')
    for d, _, fs in os.walk(root):
        for f in fs:
            if not f.endswith('.rs'): continue
            t = open(os.path.join(d, f)).read()
            names.update(re.findall(r'intern_set_func!\(\s*ctx\s*,\s*\w+\s*,\s*"([^"]+)"', t))
            for m in re.finditer(r'intern_set_func!\(\s*ctx\s*,\s*(\w+)\s*\)', t): names.add(m.group(1))
            names.update(re.findall(r'add_special_form\(\s*"([^"]+)"', t))
            names.update(re.findall(r'crate_add_(?:func|macro)!\(\s*ctx\s*,\s*\w+\s*,\s*"([^"]+)"', t))
            names.update(re.findall(r'ctx\.intern\("([^"]+)"\)\s*\n?\s*\.set\(', t))
            for m in re.finditer(r'#\[crate_fn(?:_no_eval)?\(([^)]*)\)\]\s*fn\s+(\w+)', t):
                attrs, fn = m.group(1), m.group(2)
                if 'add_func' in attrs or 'add_macro' in attrs:
                    nm = re.search(r'name\s*=\s*"([^"]+)"', attrs)
                    names.add(nm.group(1) if nm else fn)
            for m in re.finditer(r'predicate_function!\((\w+)\)', t): names.add(m.group(1))
            for mm in re.finditer(r'impl_all_cxr!\(([^;]*?)\);', t, flags=re.S):
                if '$' in mm.group(1): continue
                names.update(x.strip() for x in mm.group(1).split(',') if x.strip())
    names.discard('$name'); names.discard('name')
    return sorted(n for n in names if n and not n.startswith('$'))

C10_KINDS = [
    ('nil', 'nil'), ('t', 't'), ('0', '0'), ('1', '1'), ('-1', '-1'), ('imin', '-9223372036854775808'), ('imax', '9223372036854775807'),
    ('0.0', '0.0'), ('-0.0', '-0.0'), ('1.5', '1.5'), ('inf', 'vinf'), ('nan', 'vnan'), ('str', '"s"'), ('sym', "'a"), ('kw', ':k'),
    ('list', "'(1 2 3)"), ('dotted', "'(1 . 2)"), ('alist', "'((a . 1) (b . 2))"), ('lambda', '(lambda (p) p)'), ('func', 'car'), ('macro', 'when'),
    ('htab', 'vh'), ('box', 'vbox'), ('selfsym', 'vs'), ('big', '4611686018427387904'),
    ('empty-str', '""'), ('uni-str', '"\u00e9%\u00e9\u6f22 %"'),
    # reader wrapper objects kept as data by a plain quote: an unquote, a splice, a backquote, a quote
    ('unq', "(car '(,a))"), ('spl', "(car '(,@a))"), ('bqv', "(car '(`a))"), ('qv', "(car '('a))"), ('wraplist', "'(,a ,@a `a 'a)"),
]
C10_PRELUDE = "(setq vinf (expt 10.0 1000)) (setq vnan (- vinf vinf)) (setq vh (make-hash-table)) (setq vbox (host-box)) (setq vs 'vs) (setq a 1)"

def check_C10(tier, seed):
    import itertools
    res = Result('C10', tier, seed); res.pending = []
    gate = proof_gate('C10')
    core.build_model(); core.build_impl(); core.build_impl(release=True)
    rng = random.Random(seed)
    names = inventory() + ['tick', 'host-add', 'host-box']
    res.cov['inventory'] = len(names)
    kinds = [k for _, k in C10_KINDS]
    items = []
    def add(name, args):
        if name == 'while' and args and args[0] not in ('nil', "'()"):
            args = ['nil'] + list(args[1:])
        if name == 'while-let':
            # an empty or always-true binding list never terminates, by definition of the form
            if not args: return
            args = ['((zz nil))'] + list(args[1:])
        items.append(('(%s%s)' % (name, ''.join(' ' + a for a in args)), {'name': name}))
    for nme in names:
        add(nme, [])
        for a in kinds: add(nme, [a])
        for a, b in itertools.product(kinds, kinds): add(nme, [a, b])
        k3 = tier_n(tier, 60, 1500)
        for _ in range(k3): add(nme, [rng.choice(kinds) for _ in range(3)])
        for _ in range(tier_n(tier, 30, 600)): add(nme, [rng.choice(kinds) for _ in range(4)])
    # malformed special forms and the same object in several positions
    shapes = ["(let 5 1)", "(let (5) 1)", "(let ((1 2)) 1)", "(let ((a . 2)) a)", "(let* ((a 1 2)) a)", "(dolist (x . 3) 1)", "(dolist (x '(1 . 2)) x)", "(dolist 5)", "(dotimes (i . 3))",
              "(dotimes (i -5) i)", "(dotimes (i 1.5))", "(cond 5)", "(cond (1 . 2))", "(if)", "(if 1)", "(if . 1)", "(setq . a)", "(setq a . 1)", "(defun)", "(defun f)", "(defun f 5)", "(defun 5 ())",
              "(defun f (&rest))", "(defun f (&optional))", "(defun f (a &rest b c))", "(lambda)", "(lambda 5)", "(funcall (lambda (&optional) 1))", "(defmacro)", "(defmacro m (x . y))",
              "(quote)", "(quote 1 2)", "(-> )", "(->> 1 . 2)", "(if-let)", "(if-let (a))", "(if-let ((a 1 2)) a)", "(when-let 5)", "(append 'a 'a)", "(append 'a '(a))", "(append '(1 . 2) '(3))",
              "(funcall 'car . 1)", "(car . 1)", "(+ . 1)", "(list . 1)", "(progn . 1)", "(and . 1)", "(1 2)", "((lambda (x) x))", "(nil)", "(t 1)", "(\"s\" 1)", ",a", ",@a", "`(,@5)", "`(,@'(1 . 2) 3)", "`(1 . ,@a)",
              "(mapcar 'car 5)", "(mapcar 5 '(1))", "(sort '(2 1) 5)", "(sort 5 '<)", "(seq-reduce '+ '(1 . 2) 0)", "(nth 9223372036854775807 '(1 2))", "(nthcdr -9223372036854775808 '(1))",
              "(last '(1 2) 9223372036854775807)", "(last '(1 2) -1)", "(format \"%d\" vnan)", "(format \"%d\" vinf)", "(format \"%d\" 1e30)".replace('1e30', '1' + '0' * 30 + '.0'), "(fround vinf)", "(ftruncate vnan)",
              "(mod 1 0)", "(mod 1.5 0)", "(mod -9223372036854775808 -1)", "(/ -9223372036854775808 -1)", "(/ 1 0)", "(/ 0)", "(- -9223372036854775808)", "(* 3037000500 3037000500)",
              "(+ 9223372036854775807 1)", "(1+ 9223372036854775807)", "(1- -9223372036854775808)", "(max 9223372036854775807 1.5)", "(expt 0 -1)", "(expt -8 0.5)",
              "(setq gensym-counter 9223372036854775807) (gensym)", "(setq gensym-counter 'x) (gensym)", "(gethash 1 vbox)", "(puthash 1 2 vbox)", "(load 5)", "(load \"/nonexistent/file\")",
              "(intern \"\")", "(make-symbol \"\")", "(eval '(1 2))", "(eval ''a)", "(macroexpand '(when))", "(macroexpand '(-> ))", "(setq x '(progn (macroexpand x))) (eval x)", "(setq x (list 'append 'x)) (eval x)",
              # a definition executed while the last form of the body it processes is being evaluated (a handler that reloads itself)
              "(defun reload () (defun on-event () (reload))) (reload) (on-event) (on-event)", "(setq form '(defun f () (eval form))) (eval form) (f)",
              "(defun f () (defun f () 2) 1) (list (f) (f))", "(setq form '(defmacro mm () (eval form))) (eval form)", "(defun g () (eval '(defun g () (g))) 7) (g)",
              "(make-hash-table :size -1)", "(make-hash-table :size -9223372036854775808)", "(make-hash-table :size 9223372036854775807)", "(make-hash-table :test 'equal :size -5)", "(make-hash-table :size 1.5)",
              "(make-hash-table :size 'a)", "(make-hash-table :size)", "(make-hash-table :weakness t :rehash-size -2.0 :size 0)", "(puthash 1 2 (make-hash-table :size -3))",
              "(setq l '(1 2)) (append l l)", "(setq l '(1 2)) (equal l l)", "(setq s 'q) (append s s)", "(let ((l (list 1 2))) (sort l (lambda (a b) (append l l) nil)))"]
    for sh in shapes: items.append((sh, {'name': 'shape'}))
    # every name applied, as a function value, to elements that are reader wrapper objects, through the sequence functions
    for nme in names:
        if nme in ('while', 'while-let'): continue
        for route in ("(mapcar '%s '(,a ,@a `a 'a))", "(seq-filter '%s '(,a ,@a))", "(seq-find '%s '(,@a ,a))", "(sort '(,a ,@a `a) '%s)", "(seq-reduce '%s '(,a ,@a) ',a)", "(funcall '%s (car '(,a)) (car '(,@a)))"):
            items.append((route % nme, {'name': nme + '-wrapper-elements'}))
    # the form under evaluation handed to the function it calls (the evaluator holds a borrow of that list while the call runs):
    # (setq vf '(NAME vf ..)) (eval vf), for every name, the form first, second and in both positions, bare and below a progn
    self_items = []
    for nme in names:
        if nme in ('while', 'while-let'): continue
        for body_ in ('(%s vf)' % nme, '(%s vf vf)' % nme, '(%s 1 vf)' % nme, "(%s 'vf vf)" % nme, '(%s (cdr vf) 1)' % nme, '(progn (%s vf 1))' % nme, '(if t (%s (cdr vf) vf) nil)' % nme):
            self_items.append(("(setq vf '%s) (list (eval vf) vf)" % body_, {'name': nme + '-selfform'}))
    # unevaluated structure in the binder / parameter / clause position of every binding form (the sweep above only passes
    # argument expressions): well-formed, empty, dotted, over-long, non-symbol and nil / t / keyword names, &optional / &rest markers
    structs = ['()', '(a)', '(a 1)', '((a 1))', '((a 1) (b 2))', '((nil 1))', '((a))', '(())', '((a . 1))', '((a 1 2))', '((1 2))', '(("s" 1))', '((:k 1))', '((t 1))', '((a 1) . 5)', '(a . 1)',
               '(a 1 . 2)', '((a 1) b)', '(&optional a)', '(a &rest)', '(a &optional b &rest c)', '(&rest)', '(&optional)', "(x (list 1 2))", "(x '(1 2) a)", "(x '(1 2) a b)", '(i 2)', '(i 2 a)', '(i 2 a b)',
               '((a 1) (nil 2))', '(((a) 1))', '((a (nofn)))', '((a 1) (b (nofn)))', '(a a)', '((a 1) (a 2))', '(nil)', '(t)', '(:k)', '((a 1) nil)', '5', '"s"', 'a']
    bodies = ['a', '(list a)', 'zz-unbound', '(setq a 2)']
    for nme in ['let', 'let*', 'dolist', 'dotimes', 'if-let', 'if-let*', 'when-let', 'lambda', 'cond', 'setq', 'and', 'or', 'progn', 'when', 'unless', 'if', '->', '->>', 'quote', 'defun', 'defmacro']:
        for st_ in structs:
            if nme in ('defun', 'defmacro'):
                items.append(('(%s ff %s)' % (nme, st_), {'name': nme + '-struct'}))
                for b_ in bodies: items.append(('(%s ff %s %s) (list (ff) (ff 1) (ff 1 2) (ff 1 2 3))' % (nme, st_, b_), {'name': nme + '-struct'}))
                items.append(('(%s ff %s "doc" a) (ff 1 2)' % (nme, st_), {'name': nme + '-struct'}))
                continue
            head = '(funcall (lambda %s' if nme == 'lambda' else '(' + nme + ' %s'
            tail = ') 1 2)' if nme == 'lambda' else ')'
            items.append(((head % st_) + tail, {'name': nme + '-struct'}))
            for b_ in bodies:
                items.append(((head % st_) + ' ' + b_ + tail, {'name': nme + '-struct'}))
                items.append(((head % st_) + ' ' + b_ + ' ' + rng.choice(bodies) + tail + ' a', {'name': nme + '-struct'}))
    # format: every directive character (ASCII and multi-byte), in every position, with every kind of argument
    dchars = ['d', 's', 'S', 'f', '%', 'c', 'x', 'e', 'g', ' ', '-', '5', '.', '\\n', '\\"', '\u00e9', '\u20ac', '\u6f22', '\U0001F600', '']
    for dc in dchars:
        for fs in ('%' + dc, 'a%' + dc + 'b', '\u00e9%' + dc, '%' + dc + '%' + dc, '%d%' + dc):
            items.append(('(format "%s")' % fs, {'name': 'format-directive'}))
            for a in kinds: items.append(('(format "%s" %s %s)' % (fs, a, a), {'name': 'format-directive'}))
    # other string consumers on empty / multi-byte text
    for s_ in ('""', '"\u00e9"', '"a\u6f22"', '"\U0001F600\U0001F600"'):
        for fn in ('intern', 'make-symbol', 'concat', 'string<', 'string>', 'string=', 'prin1-to-string', 'princ', 'length', 'load', 'gensym', 'format'):
            items.append(('(%s %s)' % (fn, s_), {'name': 'string-arg'})); items.append(('(%s %s %s)' % (fn, s_, s_), {'name': 'string-arg'}))
    full = [(C10_PRELUDE + ' ' + t, m) for t, m in items]
    res.cov['programs'] = len(full)
    # debug vs model, then release vs debug
    per = 40
    cases = []
    for i in range(0, len(full), per):
        c = Case('x%d' % i)
        for j, (t, m) in enumerate(full[i:i + per]):
            c.ctx(j); c.eval(t)
        cases.append(c)
    impl_d = core.run_side(core.TLIMPL_DEBUG, cases, announce=True, timeout=300)
    impl_r = core.run_side(core.TLIMPL_RELEASE, cases, announce=True, timeout=300)
    model = core.run_side(core.TLMODEL, cases, timeout=300)
    nv = 0
    ncmp = 0
    distinct = set()
    for ci, c in enumerate(cases):
        dl, rl, ml = impl_d.get(c.cid, []), impl_r.get(c.cid, []), model.get(c.cid, [])
        for k in range(min(per, len(full) - ci * per)):
            text = full[ci * per + k][0]
            d = core.parse_line(dl[k]) if k < len(dl) else None
            r = core.parse_line(rl[k]) if k < len(rl) else None
            m = core.parse_line(ml[k]) if k < len(ml) else None
            if d is None or r is None:
                nv += 1
                if nv <= 8: res.violation('abort', {'program': text, 'why': 'process ended while evaluating (abort / stack overflow / hang)', 'debug': dl[-1:] , 'release': rl[-1:]})
                break
            ncmp += 1
            distinct.add((full[ci * per + k][1]['name'], d[1], d[2][:24]))
            od, orr = core.default_observe(*d[1:]), core.default_observe(*r[1:])
            if d[1] in ('P', 'A', 'H') or r[1] in ('P', 'A', 'H'):
                nv += 1
                if nv <= 8: res.violation('panic', {'program': text, 'debug': decode_line(dl[k]), 'release': decode_line(rl[k]), 'why': 'evaluation panicked or aborted instead of returning a value or an error'})
                continue
            if od != orr:
                nv += 1
                if nv <= 8: res.violation('profile-difference', {'program': text, 'debug': decode_line(dl[k]), 'release': decode_line(rl[k]), 'why': 'outcome differs between the build with and without debug assertions / overflow checks'})
                continue
            if m is not None and m[1] not in ('F',) and not (m[1] == 'E' and m[2] == 'unmodelled'):
                om = core.default_observe(*m[1:])
                if om != od:
                    res.cov['disagreements_checked'] = res.cov.get('disagreements_checked', 0) + 1
                    if len(res.pending) < 10:
                        res.pending.append({'program': text, 'impl_decoded': decode_line(dl[k]), 'model_decoded': decode_line(ml[k]), 'why': 'differ', 'correspondence': 'Eval.apply_prim'})
    # the self-referential forms, one process-independent case each: some of them do not terminate (a form that evaluates
    # itself); unbounded recursion is outside the property - the model runs out of fuel on exactly those - every other
    # program must end with a value or an error in both profiles
    scases = []
    for j, (t_, m_) in enumerate(self_items):
        c = Case('sf%d' % j); c.eval(C10_PRELUDE + ' ' + t_); scases.append(c)
    s_d = core.run_side(core.TLIMPL_DEBUG, scases, announce=True, timeout=300, env={'TL_STACK_MB': '64'})
    s_r = core.run_side(core.TLIMPL_RELEASE, scases, announce=True, timeout=300, env={'TL_STACK_MB': '64'})
    s_m = core.run_side(core.TLMODEL, scases, timeout=600, env={'TL_FUEL': '4000'})
    nunb = 0
    for c, (t_, m_) in zip(scases, self_items):
        d = core.parse_line(s_d[c.cid][0]) if s_d.get(c.cid) else None
        r = core.parse_line(s_r[c.cid][0]) if s_r.get(c.cid) else None
        m = core.parse_line(s_m[c.cid][0]) if s_m.get(c.cid) else None
        ncmp += 1
        unbounded = m is not None and m[1] == 'F'
        if unbounded: nunb += 1
        for prof, o in (('debug', d), ('release', r)):
            if o is None or o[1] in ('P',) or (o[1] in ('A', 'H') and not unbounded):
                nv += 1
                if nv <= 8: res.violation('panic', {'program': t_, 'profile': prof, 'line': decode_line((s_d if prof == 'debug' else s_r)[c.cid][0]) if o is not None else None,
                                                    'why': 'a form that is handed to the function it calls (the evaluator is reading that list) made the interpreter panic or abort'})
                break
        else:
            if d[1] in ('V', 'E') and r[1] in ('V', 'E'):
                distinct.add((m_['name'], d[1], d[2][:24]))
                if core.default_observe(*d[1:]) != core.default_observe(*r[1:]):
                    nv += 1
                    if nv <= 8: res.violation('profile-difference', {'program': t_, 'debug': decode_line(s_d[c.cid][0]), 'release': decode_line(s_r[c.cid][0])})
                elif m is not None and m[1] != 'F' and not (m[1] == 'E' and m[2] == 'unmodelled') and core.default_observe(*m[1:]) != core.default_observe(*d[1:]):
                    res.cov['disagreements_checked'] = res.cov.get('disagreements_checked', 0) + 1
                    if len(res.pending) < 10:
                        res.pending.append({'program': C10_PRELUDE + ' ' + t_, 'impl_decoded': decode_line(s_d[c.cid][0]), 'model_decoded': decode_line(s_m[c.cid][0]), 'why': 'differ', 'correspondence': 'Eval.apply_prim'})
    res.cov['self_referential_forms'] = len(self_items)
    res.cov['self_referential_unbounded'] = nunb
    # programs whose recursion is in tail position run on a small stack: the interpreter must not abort the process
    deep = ["(defun f (n acc) (if (> n 0) (f (- n 1) (+ acc 1)) acc)) (f 20000 0)",
            "(defun f (n acc) (if (< n 1) acc (f (- n 1) (+ acc 1)))) (f 20000 0)",
            "(defun f (n acc) (cond ((> n 0) (f (- n 1) (+ acc 1))) (t acc))) (f 20000 0)",
            "(defun f (n acc) (if (> n 0) (let ((m (- n 1))) (progn (f m (+ acc 1)))) acc)) (f 20000 0)",
            "(defun f (n acc) (when (> n 0) (setq acc (+ acc 1))) (if (> n 0) (f (- n 1) acc) acc)) (f 20000 0)",
            "(let ((i 0) (l nil)) (while (< i 20000) (setq l (cons i l)) (setq i (1+ i))) (length l))",
            "(let ((l nil)) (dotimes (i 20000) (setq l (cons i l))) (length (mapcar '1+ l)))"]
    dcases = []
    for j, t in enumerate(deep):
        c = Case('deep%d' % j); c.eval(t); dcases.append(c)
    for binary, label in ((core.TLIMPL_DEBUG, 'debug'), (core.TLIMPL_RELEASE, 'release')):
        out = core.run_side(binary, dcases, env={'TL_STACK_MB': '16'}, announce=True, timeout=300)
        for c, t in zip(dcases, deep):
            ls = out.get(c.cid, [])
            k = core.parse_line(ls[0])[1] if ls else 'A'
            ncmp += 1
            if k != 'V':
                nv += 1
                if nv <= 8: res.violation('abort', {'program': t, 'profile': label, 'line': ls[:1], 'why': 'iteration in tail position exhausted a 16 MiB stack or failed'})
    res.cov['evaluations'] = ncmp
    res.cov['distinct_nontrivial'] = len(distinct)
    res.cov['exhaustive'] = True
    res.cov['exhaustive_space'] = 'every registered name (%d, read from src/builtin) x all argument tuples of length 0-2 over %d kinds' % (len(names), len(kinds))
    res.cov['rule'] = ('every built-in function, macro and special form of the source inventory applied to nil, t, integers incl. i64 extremes, floats incl. signed zero / inf / NaN, string, symbol, keyword, '
                       'proper / dotted / association list, lambda, built-in function and macro objects, hash table, foreign boxed value, a symbol bound to itself; arity 0-2 exhaustive, 3 and 4 sampled; '
                       '%d malformed special forms, overflow and zero-division cases and programs that pass one object in several positions; each program in a fresh context, in the debug and the release build; '
                       '%d self-referential forms (setq vf (quote (NAME vf ..))) (eval vf) for every name - the form under evaluation handed to the function it calls - each in its own case, those that recurse without bound recognised by the model running out of fuel; '
                       'oracle: never a panic or abort, identical outcome in both profiles; correspondence: value / error class equal to the model' % (len(shapes), len(self_items)))
    res.cov['samples'] = [full[1][0], full[500][0], full[-1][0]]
    for d in res.pending:
        res.violation('disagreement', d, no_input=not oracle_confirms(d))
    return res.finish(gate)

CHECKS['C10'] = check_C10

# ---------------------------------------------------------------- C11
class ListExprGen:
    def __init__(self, rng): self.r = rng
    def L(self, d):
        r = self.r
        if d <= 0 or r.random() < 0.25:
            return r.choice(['l1', 'l2', 'l3', 'lnil', Q([4, 1, 3]), Q([]), None, Q([7]), ['list', 5, 6]])
        c = r.choice(['append', 'append3', 'appendnil', 'sort', 'mapcar', 'filter', 'cons', 'cdr', 'nthcdr', 'last', 'bq', 'bq2', 'seqmap', 'consvar', 'reduce', 'let', 'if', 'dolist', 'append-cons'])
        s = lambda: self.L(d - 1)
        if c == 'append': return ['append', s(), s()]
        if c == 'append3': return ['append', s(), s(), s()]
        if c == 'appendnil': return ['append', None, s(), s()]
        if c == 'append-cons': return ['append', ['cons', 0, s()], s()]
        if c == 'sort': return ['sort', s(), r.choice([Q('<'), Q('>'), ['lambda', ['p', 'q'], ['<', 'p', 'q']]])]
        if c == 'mapcar': return [r.choice(['mapcar', 'seq-map']), r.choice([Q('1+'), ['lambda', ['p'], ['*', 'p', 2]]]), s()]
        if c == 'filter': return ['seq-filter', ['lambda', ['p'], ['<', 'p', 4]], s()]
        if c == 'cons': return ['cons', r.choice([0, 9]), s()]
        if c == 'consvar': return ['cons', r.choice([0, 9]), r.choice(['l1', 'l3'])]
        if c == 'cdr': return [r.choice(['cdr', 'cddr']), s()]
        if c == 'nthcdr': return ['nthcdr', r.choice([0, 1, 2]), s()]
        if c == 'last': return ['last', s()]
        if c == 'bq': return BQ([SPL(s()), 8, SPL(s())])
        if c == 'bq2': return BQ([0, SPL(s())])
        if c == 'seqmap': return ['seq-map', Q('1-'), s()]
        if c == 'reduce': return ['seq-reduce', ['lambda', ['acc', 'e'], ['cons', 'e', 'acc']], s(), r.choice([None, 'l1', Q([0])])]
        if c == 'let': return ['let', [['tmp', s()]], ['append', 'tmp', s()]]
        if c == 'if': return ['if', ['consp', s()], s(), s()]
        return ['let', [['acc', None]], ['dolist', ['e', s()], ['setq', 'acc', ['cons', 'e', 'acc']]], 'acc']
    def other(self, d):
        r = self.r
        return r.choice([['length', self.L(d)], ['nth', 1, self.L(d)], ['assoc', Q('b'), 'al'], ['alist-get', Q('a'), 'al'], ['plist-get', 'pl', Q('b')],
                         ['seq-find', ['lambda', ['p'], ['>', 'p', 1]], self.L(d)], ['equal', self.L(d), self.L(d)], ['concat', 's1', Str('x'), 's1'],
                         ['format', Str('%s-%S'), 's1', self.L(d)], ['prin1-to-string', self.L(d)], ['list', self.L(d), self.L(d)],
                         ['mapcar', Q('car'), 'al'], ['seq-filter', Q('consp'), 'al'], ['sort', 'al', ['lambda', ['p', 'q'], ['>', ['cdr', 'p'], ['cdr', 'q']]]],
                         ['append', 'al', 'al'], ['append', 'pl', Q(['z'])], BQ(['k', SPL('al'), UQ('s1'), SPL('pl')])])

C11_PRE = "(setq l1 '(3 1 2)) (setq l2 (list 6 5 4)) (setq l3 '(1)) (setq lnil nil) (setq al '((a . 1) (b . 2) (c . 3))) (setq pl '(a 1 b 2)) (setq s1 \"str\")"
C11_VARS = ['l1', 'l2', 'l3', 'lnil', 'al', 'pl', 's1']
C11_EXPECT = {'l1': '(3 1 2)', 'l2': '(6 5 4)', 'l3': '(1)', 'lnil': 'nil', 'al': '((a . 1) (b . 2) (c . 3))', 'pl': '(a 1 b 2)', 's1': '"str"'}

def check_C11(tier, seed):
    res = Result('C11', tier, seed); res.pending = []
    gate = proof_gate('C11')
    core.build_model(); core.build_impl()
    rng = random.Random(seed)
    g = ListExprGen(rng)
    cases = []; exprs = []
    n = tier_n(tier, 1500, 40000)
    # quoted macro calls expanded or evaluated at run time: the quoted constant (and the lists it mentions) must be
    # the same for the second and third expansion
    MACRO_DATA = ["(eval '(->> 1 (+ 2)))", "(eval '(thread-last 1 (+ 2) (* 3)))", "(macroexpand '(->> l1 (cons 0) (append l2)))", "(eval '(-> 5 (- 2) (list 1)))",
                  "(macroexpand '(thread-first l1 (nthcdr 1) (append l3)))", "(eval (list '->> 1 '(+ 2) '(list 3)))", "(eval '(when t (append l1 l2)))", "(macroexpand '(unless nil (cdr l1) (car l2)))",
                  "(macroexpand '(if-let ((a l1)) (car a) (cdr l2)))", "(eval '(if-let* ((a l1) (b (cdr a))) b))", "(eval '(when-let ((a l1)) (car a)))", "(macroexpand '(when-let ((a (cdr l1)) (b l2)) (list a b)))",
                  "(let ((n 0)) (eval '(while-let ((a (nthcdr n l1))) (setq n (1+ n)))) n)", "(macroexpand '(while-let ((a l3)) (car a)))", "(eval `(->> ,(list 'quote l1) (mapcar '1+)))",
                  "(let ((step '(+ 2))) (list (eval (list '->> 1 step)) step))", "(let ((step '(list 10 20))) (eval (list '-> 1 step)) step)",
                  "(progn (defmacro addtwo (x) (list '->> x '(+ 2))) (list (macroexpand '(addtwo 1)) (macroexpand '(addtwo 5))))",
                  "(progn (defmacro wrapl (x) `(append ,x '(9))) (list (eval '(wrapl l1)) (eval '(wrapl l1))))",
                  # definitions consed at run time around a quoted body: defun's tail-call marking must not write into it
                  "(let ((tmpl '((n acc) (if (< n 1) acc (cdn (- n 1) (+ acc 1)))))) (eval (cons 'defun (cons 'cdn tmpl))) (list tmpl (cdn 3 0)))",
                  "(let ((tmpl '((n acc) (progn (setq n (- n 1)) (if (< n 0) acc (cdp n (+ acc 1))))))) (eval (cons 'defun (cons 'cdp tmpl))) (list tmpl (cdp 3 0)))",
                  "(let ((tmpl '((n acc) (let ((m (- n 1))) (cond ((< m 0) acc) (t (cdl m (+ acc 2)))))))) (eval (cons 'defun (cons 'cdl tmpl))) (list tmpl (cdl 2 0)))",
                  "(let ((tmpl '((n) (cde (- n 1))))) (eval (cons 'defun (cons 'cdx tmpl))) (eval (cons 'defun (cons 'cde (list '(n) (list 'if '(< n 1) ''done (cons 'cde (cdr (cadr tmpl)))))))) (list tmpl (cde 2)))",
                  "(let ((body '(when (> n 0) (wtl (- n 1))))) (eval (list 'defun 'wtl '(n) body)) (list body (wtl 2)))",
                  # numbers are values: a nested one-operand call of the same operator hands back a number that lives elsewhere
                  "(let ((xs (list 4 5 6))) (list (+ (+ (car xs)) 10) (+ (+ (car xs)) 10) xs))", "(list (* (* 3) 2) (* (* 3) 2) 3 (+ (+ 3) 1))",
                  "(let ((v 7)) (list (max (max v) 1) (min (min v) 100) (+ (+ v) v) v))", "(let ((al '((a . 1) (b . 2)))) (list (+ (+ (cdr (car al))) 5) (* (* (cdr (cadr al))) 5) al))",
                  "(progn (defmacro sum7 (&rest amounts) `(+ (+ ,@amounts) 7)) (let ((q 1)) (list (sum7 q) (sum7 q) q)))",
                  # one call form evaluated while its head variable is bound to different functions (parameter, loop variable,
                  # let variable, a consed form handed to eval around a redefinition): evaluation leaves nothing behind in the form
                  "(progn (defun apply-to (f x) (f x)) (list (apply-to (lambda (v) (+ v 1)) 10) (apply-to (lambda (v) (* v 2)) 10) (apply-to 'car '(7))))",
                  "(let ((r nil)) (dolist (f (list (lambda (v) (+ v 1)) (lambda (v) (* v 10)) (lambda (v) (- v 1)))) (setq r (cons (f 1) r))) r)",
                  "(mapcar (lambda (cell) (let ((op (cdr cell))) (op 5))) (list (cons 'a (lambda (a) (+ a 1))) (cons 'b (lambda (a) (* a 3))) (cons 'c 'list)))",
                  "(progn (setq form (list 'area 3)) (defun area (x) (* x 3)) (setq r1 (eval form)) (defun area (x) (* x 2)) (list r1 (eval form) form))",
                  "(let ((r nil) (i 0)) (while (< i 3) (let ((f (if (< i 1) (lambda () 'first) (lambda () (list 'later i))))) (setq r (cons (f) r))) (setq i (1+ i))) r)"]
    for i in range(n):
        if i < len(MACRO_DATA): t = MACRO_DATA[i]
        else:
            e = g.L(rng.choice([1, 2, 3, 4])) if rng.random() < 0.7 else g.other(rng.choice([0, 1, 2]))
            t = render(e)
        exprs.append(t)
        c = Case('m%d' % i)
        c.eval(C11_PRE); c.vars(C11_VARS)
        c.eval('(defun run () %s)' % t)
        c.eval('(list (run) (run) (run))'); c.vars(C11_VARS)
        if "(cons 'defun" in t or "(list 'defun" in t:
            # a definition consed around a quoted body is evaluated through the function only: reading the text again
            # once the name is defined is the listed finding D30 (the quoted call keeps the old function value)
            c.eval('(run)'); c.eval('(run)'); c.vars(C11_VARS)
        else:
            c.eval(t); c.eval(t); c.vars(C11_VARS)
        c.eval('(run)')
        cases.append(c)
    impl, model, dis = differential(res, cases)
    nv = 0
    distinct = set()
    for c, t in zip(cases, exprs):
        ls = impl.get(c.cid, [])
        if len(ls) < 9: continue
        def val(l):
            _, kind, payload, _ = core.parse_line(l)
            return unhx(payload) if kind == 'V' else kind
        def vars_of(l):
            _, kind, payload, _ = core.parse_line(l)
            out = {}
            for a in payload.split(';'):
                name, rest = a.split('=')
                out[unhx(name)] = ','.join(unhx(v) for v in rest.split(':', 1)[1].split(',') if v)
            return out
        why = None
        three = val(ls[3])
        if three not in ('E',) and three.startswith('('):
            # (r1 r2 r3): identical printed thirds
            inner = three[1:-1]
            L3 = len(inner)
            if not (L3 % 3 == 2 and inner[:(L3 - 2) // 3] == inner[(L3 - 2) // 3 + 1: 2 * ((L3 - 2) // 3) + 1] == inner[2 * ((L3 - 2) // 3) + 2:]):
                why = 'three evaluations of the same function differ: ' + three[:300]
        for k in (1, 4, 7):
            v = vars_of(ls[k])
            for name, exp in C11_EXPECT.items():
                if v.get(name) != exp and why is None:
                    why = 'variable %s changed from %s to %s' % (name, exp, v.get(name))
        if why is None and not (val(ls[5]) == val(ls[6]) == val(ls[8])):
            why = 'repeated evaluation gives different results: %s / %s / %s' % (val(ls[5])[:100], val(ls[6])[:100], val(ls[8])[:100])
        distinct.add((t[:60], val(ls[5])[:40]))
        if why:
            nv += 1
            if nv <= 8: res.violation('mutation', {'expr': t, 'prelude': C11_PRE, 'why': why, 'requests': c.readable(), 'impl': [decode_line(l) for l in ls], 'raw_case': c.text()})
    res.cov['distinct_nontrivial'] = len(distinct)
    res.cov['rule'] = ('%d random expressions composed of append (2-3 arguments, nil first argument, consed first argument), sort, mapcar, seq-map, seq-filter, seq-reduce, seq-find, cons, cdr, nthcdr, last, '
                       'backquote splicing (first / middle / last position), dolist accumulation, assoc, alist-get, plist-get, format, over four list variables, an alist, a plist and quoted literals; '
                       'each is evaluated three times through one function object and twice at top level; oracle (implementation only): all results print the same and every variable prints as before; '
                       'correspondence with the model' % n)
    res.cov['samples'] = exprs[:3]
    for d in res.pending:
        res.violation('disagreement', d, no_input=not oracle_confirms(d))
    return res.finish(gate)

CHECKS['C11'] = check_C11

# ---------------------------------------------------------------- C16
def scan_forms(text):
    """Positions of every '(' ... ')' form and symbol-ish token: returns dict start(line,col) -> (end(line,col), slice).
    Understands strings with escapes and ; comments, like the tokenizer."""
    pos = []          # (line, col) for each char index, plus one past the end
    line, col = 1, 1
    for ch in text:
        pos.append((line, col))
        if ch == '\n': line += 1; col = 1
        else: col += 1
    pos.append((line, col))
    forms = {}
    stack = []
    i = 0; n = len(text)
    while i < n:
        ch = text[i]
        if ch == '"':
            i += 1
            while i < n and text[i] != '"':
                if text[i] == '\\': i += 1
                i += 1
            i += 1; continue
        if ch == ';':
            while i < n and text[i] != '\n': i += 1
            continue
        if ch == '(':
            stack.append(i); i += 1; continue
        if ch == ')':
            if stack:
                s = stack.pop()
                forms[pos[s]] = (pos[i + 1], text[s:i + 1])
            i += 1; continue
        if ch in " \t\r\n'`,@#.":
            i += 1; continue
        # identifier / number token
        s = i
        while i < n and text[i] not in ' \t\r\n)': i += 1
        forms.setdefault(pos[s], (pos[i], text[s:i]))
    return forms, pos

ENTRY_RE = re.compile(r'^(.*?):(\d+)\.(\d+)-(\d+)\.(\d+):  at (.*)$')

def check_C16(tier, seed):
    from .gen import data
    res = Result('C16', tier, seed); res.pending = []
    gate = proof_gate('C16')
    core.build_model(); core.build_impl()
    rng = random.Random(seed)
    # ---- part 1: positions reported by the reader equal the model's, for every node, in random layouts
    rcases = []
    for i in range(tier_n(tier, 600, 15000)):
        v = data.gen_value(rng, rng.choice([1, 2, 3]))
        pre = rng.choice(['', '"é漢" ', '; ünï\n', '\n\n', '"\U0001F600\\n\nx" ', 'é ', '\t'])
        c = Case('s%d' % i)
        c.parse(pre + data.layout(rng, data.tokens(v), 'as_built'))
        rcases.append(c)
    differential(res, rcases, label='Reader spans')
    # ---- part 2: errors raised at every evaluation point
    nprog = tier_n(tier, 200, 5000)
    progs = []
    for i in range(nprog):
        g = programs.ProgGen(rng, tick_p=0.6, err_p=0.0)
        texts = g.history(ntexts=1)
        toks = []
        for t in texts[-1]: toks += data.tokens(t)
        body = rng.choice(['', '(setq pad "é漢\U0001F600 padding")\n', ';; cömment (\n', '(setq pad \'(' + ' '.join('"ééééééééé%d"' % k for k in range(12)) + '))\n']) + data.layout(rng, toks, 'as_built')
        defs = programs.render_text(texts[0]) if len(texts) > 1 else ''
        progs.append((defs, body))
    # forms that a macro hands back unchanged as its expansion (identity / selecting macros, threading with one form):
    # the failing call keeps its own extent
    mdefs = "(defmacro idm (x) x) (defmacro pick (flag form) (if flag form nil)) (defmacro twice (x) (list 'progn x x))"
    mbodies = ["(list (idm (tick 1 5))\n  (pick t (tick 2 6))\n (-> (tick 3 7))\n   (->> (tick 4 8)) (thread-first (tick 5 9))\n (when t (idm (tick 6 1))))",
               "(progn\n  (setq a (idm\n     (tick 1 1)))\n  (pick (tick 2 t)\n        (tick 3 a))\n  (thread-last\n (tick 4 2)))",
               "  (twice (tick 1 0))\n(idm (idm (tick 2 1)))   (pick nil (tick 3 2)) (idm (list (tick 4 3) (idm (tick 5 4))))",
               "(let ((é (idm (tick 1 \"é漢\"))))\n\t(-> (tick 2 é)\n\t    (list (tick 3 1))))"]
    for mb in mbodies: progs.append((mdefs, mb))
    # forms that reach the evaluator through a copy of the list that holds them: bodies spliced by ,@ in a user macro, bodies of
    # let / progn / if in tail position of a defun (rebuilt when tail calls are marked), bodies of when-let / if-let, threading steps
    progs.append(('', """(defmacro my-progn (&rest body)
  `(progn ,@body))
(defmacro my-when (c &rest body) `(if ,c (progn ,@body)))
(defmacro with-x (v &rest body)
  `(let ((x ,v))
      ,@body))
(defun tl (v)
  (let ((y v)) (tick 1 y)
    (let* ((z y)) (progn (tick 2 z)
       (if z (tick 3 z) (tick 4 z))))))
(defun tp (v)
  (if v
      (progn (tick 30 v))
    (when (null v)
       (tick 31 v))))
(defun tq (v) (let ((w v))
   (cond ((null w) (progn
        (tick 32 w)))
     (t (when w (tick 33 w))))))
(defun tr (v) (progn (when v (tick 34 v))))
(tp 1) (tp nil)
(tq nil) (tq 2) (tr 3)
(my-progn (tick 5 1)
   (tick 6 2))
(my-when (tick 7 3) (tick 8 4) (list (tick 9 5)))
(with-x (tick 10 1) (tick 11 x)
    (my-progn (list 1) (list (tick 12 x))))
(tl 1)
(when-let ((a (tick 13 1))) (tick 14 a)
  (list (tick 15 a)))
(-> 1 (list (list (tick 16 2))))
(append (list (tick 17 1)) nil)
(if-let ((b (tick 18 nil))) b (tick 19 1) (list 2 (tick 20 2)))
"""))
    # forms handed to macros and substituted by , and ,@ in every template position: each keeps its own extent
    progs.append(('', """(defmacro m-if (c a b) `(if ,c ,a ,b))
(defmacro m-let (v e &rest body)
  `(let ((,v ,e)) ,@body))
(defmacro m-call (f &rest args) `(,f ,@args))
(defmacro m-twice (e) `(progn ,e
    ,e))
(defmacro m-dot (a b) `(cons ,a . (,b)))
(defmacro m-nest (e) `(m-if t ,e (m-call list ,e)))
(m-if (tick 1 t) (tick 2 1)
   (tick 3 2))
(m-if (tick 4 nil) (tick 5 1) (list (tick 6 2)))
(m-let q (tick 7 1) (tick 8 q)
  (m-if q (tick 9 q) 0))
(m-call list (tick 10 1) (m-call car (list (tick 11 2))))
(m-twice (tick 12 1))
(m-dot (tick 13 1)
       (tick 14 2))
(m-nest (list (tick 15 1)))
(let ((forms (list 1 2))) `(a ,(tick 16 forms) ,@(list (tick 17 1)) . ,(tick 18 2)))
"""))
    base = []
    for i, (defs, body) in enumerate(progs):
        c = Case('b%d' % i)
        if defs: c.eval(defs)
        c.eval(body); base.append(c)
    out0 = core.run_side(core.TLIMPL_DEBUG, base, announce=True)
    cases = []; metas = []
    for i, (defs, body) in enumerate(progs):
        ls = out0.get('b%d' % i, [])
        if not ls: continue
        _, kind, payload, ticks = core.parse_line(ls[-1])
        tl = [] if ticks in ('-', '?', None) else ticks.split(',')
        ks = list(range(1, len(tl) + 1))
        if len(ks) > 8 and i < nprog: ks = sorted(rng.sample(ks, 8))       # the hand-written texts are probed at every point
        for k in ks:
            mode = rng.choice(['string', 'string', 'file', 'nested'])
            c = Case('e%d_%d' % (i, k))
            if defs: c.eval(defs)
            c.failat(k)
            if mode == 'string': c.eval(body)
            elif mode == 'file': c.file('prog.el', body); c.load('prog.el')
            else: c.file('inner.el', body); c.file('outer.el', '(setq before 1)\n\n  (load "inner.el")\n'); c.load('outer.el')
            cases.append(c); metas.append({'body': body, 'mode': mode, 'tick': int(tl[k - 1].split(':')[0]), 'defs': defs})
    # code defined by a loaded file failing later, long forms with multi-byte characters around byte 80
    extra = []
    for j in range(tier_n(tier, 30, 300)):
        c = Case('x%d' % j)
        padding = 'é' * rng.randint(20, 45)
        c.file('defs.el', '(defun from-file (v)\n  (list "%s" (tick 1 v) "%s" \'(%s)))\n' % (padding, padding, ' '.join(['sym%d' % k for k in range(rng.randint(0, 12))])))
        c.load('defs.el'); c.failat(1); c.eval('(list 1\n   (from-file 2))')
        extra.append(c)
    env = {'TL_SHOWERR': '1'}
    out = core.run_side(core.TLIMPL_DEBUG, cases + extra, env=env, announce=True)
    nv = 0
    distinct = set()
    cases_with_entries = set()
    nentries = 0
    for c, meta in list(zip(cases, metas)) + [(c, None) for c in extra]:
        ls = out.get(c.cid, [])
        if not ls: continue
        l = ls[-1]
        p = l.split(' ')
        def bad(why, extra_=None):
            nonlocal nv
            nv += 1
            if nv <= 8:
                res.violation('location', dict({'requests': c.readable(), 'why': why, 'line': l[:300], 'raw_case': c.text()}, **(extra_ or {})))
        if p[2] == 'P' or p[2] in ('A', 'H'):
            bad('evaluating or rendering the error panicked'); continue
        if p[2] != 'E' or 'M' not in p: continue
        msg = unhx(p[p.index('M') + 1])
        res.cov['evaluations'] += 1
        entries = []
        for ml in msg.split('\n')[1:]:
            m = ENTRY_RE.match(ml)
            if m: entries.append(m)
        if meta is None:
            # failure inside a function defined by a loaded file: entries must name defs.el or <eval_string>
            for m in entries:
                if not (m.group(1).endswith('defs.el') or m.group(1) == '<eval_string>'): bad('entry names a text that was not evaluated: ' + m.group(1))
            continue
        body = meta['body']
        forms, pos = scan_forms(body)
        first = True
        if re.search(r'\(\s*tick\s+%d\b' % meta['tick'], re.sub(r';[^\n]*\n', ' ', body)) is not None:
            if not entries or not re.match(r'\(\s*tick\s+%d\b' % meta['tick'], entries[0].group(6)):
                bad('the failing host call (tick %d ...) is written in the evaluated text but is not the innermost located entry' % meta['tick'], {'entries': [e.group(0) for e in entries[:3]]})
                continue
        for m in entries:
            fname, sl, sc, el, ec, shown = m.group(1), int(m.group(2)), int(m.group(3)), int(m.group(4)), int(m.group(5)), m.group(6)
            nentries += 1
            expect_file = {'string': '<eval_string>', 'file': 'prog.el', 'nested': 'inner.el'}[meta['mode']]
            in_body = fname == '<eval_string>' if meta['mode'] == 'string' else fname.endswith(expect_file)
            if not in_body:
                if meta['mode'] == 'nested' and fname.endswith('outer.el'):
                    if (sl, sc) != (3, 3): bad('the load form of outer.el is reported at %d.%d' % (sl, sc))
                    continue
                if meta['defs'] and fname == '<eval_string>' and meta['mode'] != 'string': continue   # an entry inside a function defined earlier by eval_string
                bad('entry names a text that was not evaluated: ' + fname); continue
            if not ((sl, sc) < (el, ec)): bad('start is not before end', {'entry': m.group(0)}); continue
            is_listish = shown.startswith('(') or re.fullmatch(r'[^\s()"\']+', shown) is not None
            if meta['defs'] and fname == '<eval_string>':
                # an earlier text of the same context has the same name: the entry may lie in it
                dforms, _ = scan_forms(meta['defs'])
                if (sl, sc) in dforms and dforms[(sl, sc)][0] == (el, ec):
                    continue
            if (sl, sc) not in forms:
                if is_listish: bad('no list or symbol starts at the reported position %d.%d' % (sl, sc), {'entry': m.group(0)})
                continue
            end, src = forms[(sl, sc)]
            if is_listish and end != (el, ec):
                bad('extent %d.%d-%d.%d does not coincide with the form written there (%d.%d-%d.%d)' % (sl, sc, el, ec, sl, sc, end[0], end[1]), {'entry': m.group(0)}); continue
            if shown.startswith('(') and not src.lstrip("'`,@#").startswith('('):
                bad('a list form is reported at the extent of %r, which is not a list' % src[:40], {'entry': m.group(0)}); continue
            if first and shown.startswith('(tick '):
                first = False
                in_this_text = re.search(r'\(\s*tick\s+%d\b' % meta['tick'], re.sub(r';[^\n]*\n', ' ', body)) is not None
                if in_this_text and not re.match(r'\(\s*tick\s+%d\b' % meta['tick'], re.sub(r';[^\n]*\n', ' ', src)):
                    bad('innermost located entry is not the failing host call (tick %d ...)' % meta['tick'], {'entry': m.group(0), 'source_there': src[:100]})
            distinct.add((sl, sc, el, ec, shown[:20])); cases_with_entries.add((c.cid, sl, sc, el, ec))
    replay_known(res, 'C16')
    res.cov['located_entries_checked'] = nentries
    res.cov['distinct_located_entries'] = len(distinct)
    res.cov['distinct_nontrivial'] = len(set(x[0] for x in cases_with_entries))
    res.cov['rule'] = ('reader: %d data texts in random layouts after non-ASCII / multi-line prefixes, spans of every list and symbol equal to the model (Reader.read_ax); '
                       'evaluation: %d generated programs laid out with random line breaks, indentation, comments and non-ASCII padding, a host failure injected at up to 8 evaluation points each, '
                       'evaluated as a string, as a loaded file and through a nested load; Error::format output parsed back; oracle: rendering succeeds, every located entry names the evaluated text / file, '
                       'start < end, the extent equals the extent of the list or symbol written at that position (independent scanner), the innermost located entry is the failing (tick k ..) form; '
                       'plus functions defined by a loaded file failing later with long multi-byte forms' % (len(rcases), nprog))
    res.cov['samples'] = [cases[0].readable()] if cases else []
    for d in res.pending:
        res.violation('disagreement', d, no_input=not oracle_confirms(d))
    return res.finish(gate)

CHECKS['C16'] = check_C16

# ---------------------------------------------------------------- C18
def check_C18(tier, seed):
    res = Result('C18', tier, seed); res.pending = []
    gate = proof_gate('C18')
    core.build_model(); core.build_impl(); core.build_impl(release=True)
    N = tier_n(tier, 120000, 1000000)
    N2 = tier_n(tier, 5000, 40000)        # operations that are quadratic in time (push walks from the head)
    def build(var, n, item='i'): return "(setq %s (let ((l nil)) (dotimes (i %d) (setq l (cons %s l))) l)) (length %s)" % (var, n, item, var)
    ops = [
        ('build', build('big', N)), ('build2', build('big2', N)),
        ('length', '(length big)'), ('nth', '(nth %d big)' % (N - 1)), ('nthcdr', '(car (nthcdr %d big))' % (N - 1)), ('last', '(car (last big))'), ('last-n', '(length (last big %d))' % (N - 5)),
        ('equal', '(equal big big2)'), ('equal-cons', "(equal (cons 1 big) (cons 1 big2))"), ('equal-differ', "(equal big (cdr big2))"),
        # lists that physically share their cells: one list against itself, two heads on one long tail, a shared tail behind different prefixes
        ('equal-self', '(equal big big)'), ('equal-shared-tail', '(equal (cons 1 big) (cons 1 big))'), ('equal-shared-differ', '(equal (cons 1 big) (cons 2 big))'),
        ('equal-shared-late', '(equal (cons 1 (cons 2 big)) (list 1 2))'), ('eq-self', '(eq big big)'), ('assoc-shared', '(car (assoc big (list (cons big 1))))'),
        ('sort-shared', "(length (sort (list big big) (lambda (p q) (equal p q))))"),
        ('print', '(length (prin1-to-string big))'), ('format-s', '(length (format "%s" big))'), ('format-S', '(length (format "%S" (list big)))'),
        ('error-int', '(+ 1 big)'), ('error-float', '(+ 1.5 big)'), ('error-cmp', '(< 1 big)'), ('error-nth', '(nth big big)'), ('error-format-d', '(format "%d" big)'), ('error-format-f', '(format "%f" big)'),
        ('error-expt', '(expt big 2)'), ('error-concat', '(concat big)'), ('error-funcall', '(funcall big)'), ('error-1+', '(1+ big)'), ('error-mod', '(mod big 2)'), ('error-string<', '(string< big "a")'),
        ('error-max', '(max big)'), ('error-setq-const', '(set big 1)'), ('error-intern', '(intern big)'),
        ('dolist', '(let ((n 0)) (dolist (e big) (setq n (1+ n))) n)'), ('seq-reduce', "(seq-reduce '+ big 0)"), ('seq-find', "(seq-find (lambda (e) (< e 0)) big 'none)"),
        ('sort', "(length (sort big '<))"), ('sort-gt', "(car (sort big '>))"),
        ('cons-share', '(length (cons 0 big))'), ('list-of', '(length (list big big))'),
        ('build-alist', build('al', N, "(cons i i)")), ('assoc-miss', "(assoc 'missing al)"), ('assoc-last', "(assoc 0 al)"), ('alist-get', "(alist-get -1 al 'dflt)"),
        ('assoc-testfn', "(assoc 0 al (lambda (a b) (equal a b)))"),
        ('build-plist', "(setq pl (let ((l nil)) (dotimes (i %d) (setq l (cons 'k (cons i l)))) l)) (length pl)" % N), ('plist-get', "(plist-get pl 'missing)"),
        ('drop-alist', '(setq al nil)'), ('drop-plist', '(setq pl nil)'),
        ('build-nested', build('nest', N, "(list i)")), ('drop-nested', '(setq nest nil)'),
        ('build-small', build('sm', N2)), ('append', "(length (append sm '(1)))"), ('append3', "(length (append sm sm nil))"), ('mapcar', "(length (mapcar '1+ sm))"),
        ('seq-filter', "(length (seq-filter (lambda (e) t) sm))"), ('splice', '(length `(0 ,@sm 1))'), ('eval-quoted', "(length (eval (list 'quote sm)))"),
        ('macroexpand', "(length (macroexpand (cons 'list sm)))"), ('list-call', "(length (eval (cons 'list sm)))"), ('plus-call', "(eval (cons '+ sm))"),
        # the APPENDED operand is the long one (append walks and copies its arguments): a short list in front of 20 000 elements
        ('build-mid', build('mid', 20000)), ('append-long-operand', "(length (append '(a b) mid))"), ('splice-long-operand', '(length `(a ,@mid z))'), ('append-two-long', "(length (append mid mid))"), ('drop-mid', '(setq mid nil)'),
        ('read-long', "(length '(" + ' '.join(['1'] * N2) + '))'), ('read-long-dotted', "(car (last '(" + ' '.join(['1'] * N2) + ' . 2)))'),
        ('closure-body', "(funcall (lambda () (length sm)))"),
        ('drop', '(setq big nil)'), ('drop2', '(setq big2 nil)'), ('drop-small', '(setq sm nil)'),
        ('tailrec-build', "(defun mk (n acc) (if (< n 1) acc (mk (- n 1) (cons n acc)))) (length (mk %d nil))" % N),
    ]
    c = Case('long')
    for name, t in ops: c.eval(t)
    nv = 0
    total = 0
    distinct = set()
    for binary, label in ((core.TLIMPL_RELEASE, 'release'), (core.TLIMPL_DEBUG, 'debug')):
        # one process per operation group so that an overflow is attributed and the sweep goes on
        out = core.run_side(binary, [c], env={'TL_STACK_MB': '2'}, announce=True, timeout=1500)
        ls = out.get('long', [])
        done = 0
        for k, l in enumerate(ls):
            idx, kind, payload, _ = core.parse_line(l)
            total += 1
            name = ops[idx][0] if idx < len(ops) else '?'
            distinct.add((name, label, kind))
            if kind in ('A', 'H', 'P'):
                nv += 1
                if nv <= 8:
                    res.violation('stack', {'operation': name, 'program': ops[idx][1][:300], 'profile': label, 'elements': N if 'sm' not in ops[idx][1] else N2,
                                            'why': 'list operation exhausted a 2 MiB stack (abort/stack overflow/hang) or panicked', 'line': l[:200]})
                # continue with the remaining operations in a fresh process (state rebuilt)
                rest = Case('long')
                for nm, t in ops[:2] + ops[idx + 1:]: rest.eval(t)
                out2 = core.run_side(binary, [rest], env={'TL_STACK_MB': '2'}, announce=True, timeout=1500)
                for l2 in out2.get('long', [])[2:]:
                    i2, k2, _, _ = core.parse_line(l2)
                    total += 1
                    if k2 in ('A', 'H', 'P'):
                        nv += 1
                        real = idx + 1 + (i2 - 2)
                        if nv <= 8 and real < len(ops):
                            res.violation('stack', {'operation': ops[real][0], 'program': ops[real][1][:300], 'profile': label, 'why': 'list operation exhausted a 2 MiB stack or panicked', 'line': l2[:200]})
                        break
                break
    # the same operations at small sizes agree with the model (ties the depth-annotated model functions to the code)
    small = Case('small')
    for name, t in ops:
        small.eval(t.replace(str(N2), '60').replace(str(N), '50').replace(str(N - 1), '49').replace(str(N - 5), '45') if 'read-long' not in name else "(length '(1 1 1))")
    differential(res, [small])
    res.cov['evaluations'] += total
    res.cov['distinct_nontrivial'] = len(distinct)
    res.cov['elements'] = N
    res.cov['rule'] = ('%d list operations (building with cons / a tail-recursive function, length, nth, nthcdr, last, equal incl. unequal and consed lists, printing, %%s/%%S formatting, 16 ways of reporting an error '
                       'about a list, dolist, seq-*, sort, assoc / alist-get / plist-get on long association and property lists, discarding lists of atoms, pairs and nested lists) on %d elements, and the time-quadratic '
                       'ones (append, mapcar, seq-filter, backquote splicing, macroexpand, reading a long literal) on %d elements, each in the release and the debug build on a 2 MiB thread stack; '
                       'oracle: the process survives every operation; the same operations on 50 elements are compared with the model' % (len(ops), N, N2))
    res.cov['samples'] = [ops[0][1], ops[7][1], ops[13][1]]
    for d in res.pending:
        res.violation('disagreement', d, no_input=not oracle_confirms(d))
    return res.finish(gate)

CHECKS['C18'] = check_C18

# ---------------------------------------------------------------- C19
def check_C19(tier, seed):
    res = Result('C19', tier, seed); res.pending = []
    gate = proof_gate('C19')
    core.build_model(); core.build_impl()
    rng = random.Random(seed)
    n = tier_n(tier, 300, 8000)
    hists = []
    for i in range(n):
        g = programs.ProgGen(rng, tick_p=0.3)
        texts = [programs.render_text(t) for t in g.history()]
        if rng.random() < 0.4:
            texts.append('(setq ht (make-hash-table)) ' + ' '.join('(puthash %s %d ht)' % (rng.choice(['1', '1.0', "'a", ':k', '2', '0.0', '-0.0']), k) for k in range(rng.choice([1, 3, 6]))) +
                         ' (list ' + ' '.join('(gethash %s ht)' % k for k in ['1', '1.0', "'a", ':k', '2', '0.0', '-0.0']) + ')')
        if rng.random() < 0.3:
            texts.append('(list (prin1-to-string (gensym)) (prin1-to-string (gensym "x")) (prin1-to-string (make-symbol "m")))')
        if rng.random() < 0.15:
            # several hundred keys that are distinct string objects with the same contents, probed with further fresh strings:
            # keys are compared with eql, so what is found cannot depend on hash seeds or addresses
            nk = rng.choice([200, 400, 600]); s = rng.choice(['key', '', 'é漢'])
            texts.append('(setq hs (make-hash-table)) (setq hn 0) (while (< hn %d) (puthash (concat "%s") hn hs) (setq hn (+ hn 1))) hn' % (nk, s))
            texts.append('(let ((i 0) (found nil)) (while (< i %d) (setq found (cons (gethash (concat "%s") hs) found)) (setq i (+ i 1))) found)' % (nk, s))
            texts.append('(let ((k (concat "%s"))) (puthash k (quote mine) hs) (list (gethash k hs) (gethash "%s" hs) (gethash (format "%%s" "%s") hs)))' % (s, s, s))
            texts.append('(let ((i 0) (hits 0)) (while (< i %d) (if (gethash (concat "%s") hs) (setq hits (+ hits 1))) (setq i (+ i 1))) hits)' % (nk, s))
        if rng.random() < 0.12:
            # many separately evaluated texts, each applying a short-lived lambda with its own parameter list (names, count,
            # &optional / &rest layout): what a lambda binds cannot depend on which addresses earlier texts happened to use
            pn = ['a', 'b', 'c', 'd', 'e2', 'k', 'm', 'n2', 'p', 'q', 'r2', 'u', 'w', 'y', 'z']
            for _ in range(rng.choice([30, 60])):
                names_ = rng.sample(pn, rng.choice([1, 2, 3, 4]))
                nreq = rng.randint(0, len(names_)); rest_ = rng.random() < 0.3 and nreq < len(names_)
                plist = names_[:nreq] + (['&optional'] + names_[nreq:len(names_) - (1 if rest_ else 0)] if nreq < len(names_) - (1 if rest_ else 0) else []) + (['&rest', names_[-1]] if rest_ else [])
                nargs = rng.randint(nreq, len(names_) + (2 if rest_ else 0))
                texts.append('(funcall (lambda (%s) (list %s)) %s)' % (' '.join(plist), ' '.join(names_), ' '.join(str(rng.randint(0, 99)) for _ in range(nargs))))
        if rng.random() < 0.1:
            nl = rng.choice([300, 600])
            strs = ' '.join('"s%d"' % k for k in range(nl)); ints = ' '.join(str(1000 + k) for k in range(nl))
            probe = [rng.randrange(nl) for _ in range(12)]
            texts.append("(setq bigs '(%s)) (list %s)" % (strs, ' '.join('(eq (nth %d bigs) "s%d")' % (k, k) for k in probe)))
            texts.append("(setq hl (make-hash-table)) %s (list %s)" % (' '.join('(puthash "k%d" %d hl)' % (k, k) for k in range(nl)), ' '.join('(gethash "k%d" hl)' % k for k in probe)))
            texts.append("(setq bigi '(%s)) (list %s)" % (ints, ' '.join('(eq (nth %d bigi) %d)' % (k, 1000 + k) for k in probe)))
        hists.append((texts, g.all_vars()))
    noise = ["(defun length (x) 42)", "(setq max 5)", "(defun f0 (&rest r) 'other-context)", "(setq a 'leak) (setq b 'leak) (setq x 'leak)", "(defmacro when (&rest r) ''hijacked)",
             "(setq gensym-counter 500)", "(defun car (x) 'no)", "(setq t1 (intern \"t\"))", "(defun r0 (n acc) 'other)", "(setq ht (make-hash-table)) (puthash 1 'other ht)", "(defun + (&rest r) 0)"]
    alone = []; inter = []
    for i, (texts, vs) in enumerate(hists):
        a = Case('a%d' % i)
        for t in texts: a.eval(t); a.vars(vs)
        alone.append(a)
        c = Case('i%d' % i)
        c.ctx(1); c.eval(rng.choice(noise)); c.ctx(2); c.eval(rng.choice(noise))
        for t in texts:
            c.ctx(0); c.eval(t); c.vars(vs)
            c.ctx(rng.choice([1, 2])); c.eval(rng.choice(noise + hists[rng.randrange(n)][0]))
        c.ctx(0); c.vars(vs)
        inter.append(c)
    implA = core.run_side(core.TLIMPL_DEBUG, alone, announce=True, timeout=60)
    implB = core.run_side(core.TLIMPL_DEBUG, alone, announce=True, nproc=3, timeout=120)      # other processes, other hash seeds and addresses
    implC = core.run_side(core.TLIMPL_DEBUG, inter, announce=True, timeout=60)
    model = core.run_side(core.TLMODEL, alone)
    ncmp, nskip, dis = core.compare(alone, implA, model)
    res.cov['evaluations'] += ncmp
    byid = {c.cid: c for c in alone}
    for d in dis[:10]:
        d2 = dict(d); d2['requests'] = byid[d['case']].readable(); d2['impl_decoded'] = decode_line(d['impl']); d2['model_decoded'] = decode_line(d['model']); d2['raw_case'] = byid[d['case']].text()
        res.pending.append(d2)
    nv = 0
    distinct = set()
    for i, (texts, vs) in enumerate(hists):
        la, lb = implA.get('a%d' % i, []), implB.get('a%d' % i, [])
        lc = implC.get('i%d' % i, [])
        distinct.add(tuple(l.split(' ', 2)[2] for l in la))
        if [l.split(' ', 2)[2] for l in la] != [l.split(' ', 2)[2] for l in lb]:
            nv += 1
            if nv <= 8: res.violation('nondeterminism', {'history': texts, 'run_A': [decode_line(l) for l in la], 'run_B': [decode_line(l) for l in lb], 'why': 'two fresh contexts in two processes give different transcripts'})
            continue
        # in the interleaved run, the lines of context 0 are: after the 2 noise lines, (eval, vars, noise) per text, then a final vars
        mine = []
        k = 2
        for _ in texts:
            mine += lc[k:k + 2]; k += 3
        mine_obs = [l.split(' ', 2)[2] for l in mine]
        if mine_obs != [l.split(' ', 2)[2] for l in la][:len(mine_obs)]:
            nv += 1
            if nv <= 8: res.violation('isolation', {'history': texts, 'alone': [decode_line(l) for l in la], 'interleaved': [decode_line(l) for l in mine], 'requests': inter[i].readable(),
                                                    'why': 'a context behaves differently when other contexts are alive in the process'})
    # ---- load = evaluate
    lcases = []; lmeta = []
    for i in range(tier_n(tier, 300, 8000)):
        g = programs.ProgGen(rng, tick_p=0.3, err_p=0.05)
        texts = [programs.render_text(t) for t in g.history()]
        body = texts[-1]
        if rng.random() < 0.3: body = body.replace(' ', '\r\n', 1) + '\n"cr\r\nlf"'
        pre = texts[:-1]
        vs = g.all_vars()
        c = Case('l%d' % i)
        mode = rng.choice(['load', 'lisp-load', 'nested', 'twice'])
        c.file('prog.el', body); c.file('outer.el', '(setq outer-before 1)\n(load "prog.el")')
        c.ctx(0)
        for t in pre: c.eval(t)
        c.ctx(1)
        for t in pre: c.eval(t)
        c.ctx(0)
        if mode == 'load': c.load('prog.el')
        elif mode == 'lisp-load': c.eval('(load "prog.el")')
        elif mode == 'nested': c.load('outer.el')
        else: c.load('prog.el')
        c.vars(vs)
        c.ctx(1); c.eval(body); c.vars(vs)
        if mode == 'twice':
            c.ctx(0); c.eval("(defmacro m-late (x) (list 'quote x))"); c.load('prog.el'); c.vars(vs)
            c.ctx(1); c.eval("(defmacro m-late (x) (list 'quote x))"); c.eval(body); c.vars(vs)
        lcases.append(c); lmeta.append({'npre': len(pre), 'mode': mode, 'body': body})
    # a file whose macro is redefined between two loads
    for j in range(tier_n(tier, 20, 200)):
        c = Case('lm%d' % j)
        body = "(list (mm %d) (mm (+ 1 %d)))" % (j, j)
        c.file('prog.el', body)
        c.ctx(0); c.eval("(defmacro mm (x) (list '+ x 1))"); c.ctx(1); c.eval("(defmacro mm (x) (list '+ x 1))")
        c.ctx(0); c.load('prog.el'); c.vars(['a']); c.ctx(1); c.eval(body); c.vars(['a'])
        c.ctx(0); c.eval("(defmacro mm (x) (list '* x 10))"); c.ctx(1); c.eval("(defmacro mm (x) (list '* x 10))")
        c.ctx(0); c.load('prog.el'); c.vars(['a']); c.ctx(1); c.eval(body); c.vars(['a'])
        lcases.append(c); lmeta.append({'npre': 1, 'mode': 'macro-redefined', 'body': body})
    # a relative name is resolved against the working directory only, whatever was loaded before and from wherever
    for j in range(4):
        c = Case('ld%d' % j)
        c.file('sub/inner.el', '(setq got-inner 42)'); c.file('sub/outer.el', '(load "inner.el")'); c.file('top-outer.el', '(load "inner.el")')
        c.file('sub/first.el', '(setq got-first 7)'); c.file('sub/second.el', '(setq got-second 8)')
        body = ['(load "inner.el")', '(load "second.el")', '(progn (load "sub/first.el") (load "second.el"))', '(load "sub/outer.el")'][j]
        if j == 1:
            c.ctx(0); c.load('sub/first.el'); c.ctx(1); c.eval('(setq got-first 7)')
        c.ctx(0)
        if j == 3: c.load('sub/outer.el')
        else: c.eval(body)
        c.vars(['got-inner', 'got-first', 'got-second'])
        c.ctx(1)
        if j == 3: c.load('top-outer.el')
        else: c.eval({0: '(load "inner.el")', 1: '(load "second.el")', 2: '(progn (setq got-first 7) (load "second.el"))'}[j])
        c.vars(['got-inner', 'got-first', 'got-second'])
        lcases.append(c); lmeta.append({'npre': 1 if j == 1 else 0, 'mode': 'subdir', 'body': body})
    implL = core.run_side(core.TLIMPL_DEBUG, lcases, announce=True, env={'TL_SHOWERR': '1'}, timeout=60)
    modelL = core.run_side(core.TLMODEL, lcases)
    def strip_msg(l):
        # error messages are compared apart from the reported file name
        p = l.split(' ')
        if len(p) > 4 and p[2] == 'E' and 'M' in p:
            k = p.index('M')
            msg = unhx(p[k + 1])
            msg = re.sub(r'(?m)^(\S*?/)?(prog|outer)\.el:', '<text>:', msg).replace('<eval_string>:', '<text>:')
            msg = '\n'.join(x for x in msg.split('\n') if 'outer.el' not in x and '(load "prog.el")' not in x)
            return ' '.join(p[2:k]) + ' ' + msg + ' ' + ' '.join(p[k + 2:])
        return l.split(' ', 2)[2]
    for c, meta in zip(lcases, lmeta):
        ls = implL.get(c.cid, [])
        npre = meta['npre']
        rest = ls[2 * npre:]
        res.cov['evaluations'] += len(rest)
        pairs = []
        if meta['mode'] == 'twice':
            pairs = [(0, 2), (1, 3), (5, 8), (6, 9)] if len(rest) >= 10 else []
        elif meta['mode'] == 'macro-redefined':
            pairs = [(0, 2), (1, 3), (6, 8), (7, 9)] if len(rest) >= 10 else []
        else:
            pairs = [(0, 2), (1, 3)] if len(rest) >= 4 else []
        for a, b in pairs:
            if meta['mode'] == 'subdir' and a == 0:
                # the two texts differ (one loads, the other evaluates), so do the positions in the messages: outcome class only
                differs = core.parse_line(rest[a])[1] != core.parse_line(rest[b])[1]
            else:
                differs = strip_msg(rest[a]) != strip_msg(rest[b])
            if differs:
                nv += 1
                if nv <= 8: res.violation('load-vs-eval', {'file_contents': meta['body'], 'mode': meta['mode'], 'loaded': decode_line(rest[a]), 'evaluated_as_string': decode_line(rest[b]),
                                                           'requests': c.readable(), 'why': 'loading a file and evaluating its contents differ (value, effects, variables or error apart from the file name)'})
                break
    # correspondence for the load histories (without messages)
    implL2 = {k: [re.sub(r' M [0-9a-f-]+', '', l) for l in v] for k, v in implL.items()}
    ncmp, nskip, dis = core.compare(lcases, implL2, modelL)
    res.cov['evaluations'] += ncmp
    byid = {c.cid: c for c in lcases}
    for d in dis[:10]:
        d2 = dict(d); d2['requests'] = byid[d['case']].readable(); d2['impl_decoded'] = decode_line(d['impl']); d2['model_decoded'] = decode_line(d['model']); d2['raw_case'] = byid[d['case']].text()
        res.pending.append(d2)
    res.cov['distinct_nontrivial'] = len(distinct)
    res.cov['rule'] = ('%d histories (programs, hash-table sequences with numeric / symbol keys, gensym) each run alone, alone again in other processes, and interleaved request by request with two other contexts '
                       'that redefine built-ins, functions and variables of the same names; oracle: the three transcripts of the observed context are identical (values, errors, tick logs, variables); '
                       'load: file contents (incl. CRLF and CR LF inside strings) loaded via eval_file, via (load ..), through a nested load and twice around a macro redefinition, against eval_string of the same text '
                       'in a sibling context; error messages compared apart from the file name; correspondence with the model' % n)
    res.cov['samples'] = [hists[0][0]]
    for d in res.pending:
        res.violation('disagreement', d, no_input=not oracle_confirms(d))
    return res.finish(gate)

CHECKS['C19'] = check_C19

# ---------------------------------------------------------------- C20
API_PRELUDE = ['int:1:1', 'int:2:9', 'nil:3', 'cons:9:3:2', 'int:3:9', 'cons:9:2:2',     # r2 = (3 2)
               'nil:3', 'str:%s:4' % hx('s'), 'sym:%s:5' % hx('foo'), 'sym:%s:6' % hx(':kw'), 'flt:4004000000000000:7', 'true:8']
API_DUMP = ['show:1', 'show:2', 'show:3', 'show:4', 'iter:2', 'iter:3', 'eq:2:3', 'equal:2:3', 'boundp:5', 'get:5:9', 'show:9', 'toint:1', 'toflt:1', 'toflt:7', 'tostr:4', 'tobool:3', 'tobool:2', 'toint:4', 'tostr:1']

def api_ops(regs=(1, 2, 3), syms=(5, 6)):
    ops = []
    R = list(regs)
    for a in R:
        ops += ['push:%d:%d' % (a, b) for b in R if b != a] + ['push:%d:%d' % (a, 1)]
        ops += ['append:%d:%d' % (a, b) for b in R]
        ops += ['car:%d:%d' % (a, d) for d in R] + ['cdr:%d:%d' % (a, d) for d in R]
        ops += ['deep:%d:%d' % (a, d) for d in R if d != a] + ['copy:%d:%d' % (a, d) for d in R if d != a]
        ops += ['cons:%d:%d:%d' % (a, b, 3) for b in R]
    for s in syms:
        for a in R[:2]: ops += ['set:%d:%d' % (s, a), 'setscope:%d:%d' % (s, a)]
        ops += ['unset:%d' % s, 'get:%d:%d' % (s, 3), 'boundp:%d' % s]
    ops += ['list3:1:2:3:3', 'list3:2:2:1:2', 'nil:3', 'set:1:2', 'get:1:3', 'unset:4']
    return sorted(set(ops))

def stack_oracle(ops, outs):
    """Independent oracle for the symbol operations: a Python stack per symbol register."""
    stacks = {5: [], 6: None}
    for o, r in zip(ops, outs):
        f = o.split(':')
        if f[0] in ('set', 'setscope', 'unset', 'boundp', 'get') and int(f[1]) in stacks:
            s = int(f[1]); st = stacks[s]
            if st is None:        # keyword: constant
                exp = {'set': 'e', 'setscope': 'e', 'unset': 'e', 'boundp': 'b0', 'get': 'u'}[f[0]]
            elif f[0] == 'set':
                if st: st[-1] = f[2]
                else: st.append(f[2])
                exp = 'u'
            elif f[0] == 'setscope': st.append(f[2]); exp = 'u'
            elif f[0] == 'unset':
                exp = 'u' if st else 'e'
                if st: st.pop()
            elif f[0] == 'boundp': exp = 'b1' if st else 'b0'
            else: exp = 'u' if st else 'e'
            if r != exp: return 'symbol op %s: expected %s got %s (stack model)' % (o, exp, r)
    return None

API_CORPUS = [
    # D37: x.append(v) with x an improper list and v containing x panicked (RefCell double borrow while the
    # error message was formatted); found by the thorough tier, fixed in d808301
    'int:1:1 cons:9:2:2 append:2:1 cons:2:2:3 cons:3:2:3 deep:3:1 append:2:1',
    'int:1:1 cons:1:1:2 cons:2:2:3 append:2:3',
    'int:1:1 cons:1:1:2 cons:2:2:3 push:2:3',
    'nil:1 int:5:2 cons:2:2:3 append:3:3 push:3:3 append:1:3 append:1:1',
]

def check_C20(tier, seed):
    import itertools
    res = Result('C20', tier, seed); res.pending = []
    gate = proof_gate('C20')
    core.build_model(); core.build_impl()
    rng = random.Random(seed)
    OPS = api_ops()
    seqs = []
    klen = tier_n(tier, 2, 3)
    for k in range(0, klen + 1):
        for t in itertools.product(OPS, repeat=k): seqs.append(list(t))
    nex = len(seqs)
    for _ in range(tier_n(tier, 12000, 150000)):
        seqs.append([rng.choice(OPS + ['show:2', 'show:3', 'iter:2', 'eq:2:3', 'equal:2:3']) for _ in range(rng.choice([4, 6, 10, 20, 30, 45]))])
    # minimised failures of earlier runs: they run in every tier
    seqs += [s.split() for s in API_CORPUS]
    per = 50
    def mk_cases(seqs):
        cases = []
        for i in range(0, len(seqs), per):
            c = Case('api%d' % i)
            for s in seqs[i:i + per]:
                c.lines.append('api ' + ' '.join(API_PRELUDE + s + API_DUMP)); c.nreq += 1
            cases.append(c)
        return cases
    # sequences that build a structure containing itself are outside the sequence model (printing them cannot
    # terminate): the model recognises them (reachability test before push) and they are dropped, counted
    pre = mk_cases(seqs)
    pm = core.run_side(core.TLMODEL, pre, timeout=300)
    keep = []
    for ci, c in enumerate(pre):
        ml = pm.get(c.cid, [])
        for k, sq in enumerate(seqs[ci * per:(ci + 1) * per]):
            if k < len(ml) and '|x' not in ml[k] and ' x|' not in ml[k]: keep.append(sq)
    res.cov['cyclic_sequences_dropped'] = len(seqs) - len(keep)
    seqs = keep
    cases = mk_cases(seqs)
    impl = core.run_side(core.TLIMPL_DEBUG, cases, announce=True, timeout=300)
    model = core.run_side(core.TLMODEL, cases, timeout=300)
    # exact attribution: a batch that did not answer every sequence normally is re-run one sequence per process
    for ci, c in enumerate(cases):
        il = impl.get(c.cid, [])
        want = len(seqs[ci * per:(ci + 1) * per])
        if len(il) != want or any((' API ' not in l) or l.endswith('PANIC') for l in il):
            singles = []
            for k, sq in enumerate(seqs[ci * per:(ci + 1) * per]):
                sc = Case('%s_%d' % (c.cid, k)); sc.lines.append('api ' + ' '.join(API_PRELUDE + sq + API_DUMP)); sc.nreq = 1
                singles.append(sc)
            so = core.run_side(core.TLIMPL_DEBUG, singles, announce=True, timeout=120, nproc=4)
            impl[c.cid] = [(so.get(sc.cid) or ['%s 0 A -1 T ?' % sc.cid])[0] for sc in singles]
    nv = 0; ncmp = 0; nskip = 0
    distinct = set()
    for ci, c in enumerate(cases):
        il, ml = impl.get(c.cid, []), model.get(c.cid, [])
        for k in range(len(seqs[ci * per:(ci + 1) * per])):
            seq = seqs[ci * per + k]
            full = API_PRELUDE + seq + API_DUMP
            if k >= len(il):
                nv += 1
                if nv <= 8: res.violation('api-abort', {'ops': full, 'why': 'process ended (abort / stack overflow) during this sequence'})
                break
            io = il[k].split(' API ', 1)[1] if ' API ' in il[k] else il[k]
            mo = ml[k].split(' API ', 1)[1] if k < len(ml) and ' API ' in ml[k] else None
            if io == 'PANIC' or ' A ' in il[k] or ' H ' in il[k]:
                nv += 1
                if nv <= 8: res.violation('api-panic', {'ops': full, 'why': 'an API call sequence panicked'})
                continue
            iouts = io.split('|')
            distinct.add(io)
            why = stack_oracle(full, iouts)
            # conversions round-trip: prelude values come back exactly
            tail = iouts[-len(API_DUMP):]
            if why is None and mo is not None:
                mouts = mo.split('|')
                ncmp += 1
                for j, (a, b) in enumerate(zip(iouts, mouts)):
                    if b == 'x': nskip += 1; break                      # cyclic structure: outside the model
                    ca = core.canon_hex(a[1:]) if a[:1] in 'vl' else a
                    cb = core.canon_hex(b[1:]) if b[:1] in 'vl' else b
                    if ca != cb:
                        res.cov['disagreements_checked'] = res.cov.get('disagreements_checked', 0) + 1
                        if len(res.pending) < 10:
                            res.pending.append({'ops': full, 'first_difference_at': j, 'op': full[j], 'impl': a if a[:1] not in 'vl' else a[0] + unhx(a[1:]),
                                                'model': b if b[:1] not in 'vl' else b[0] + unhx(b[1:]), 'why': 'differ', 'correspondence': 'Api.step_op'})
                        break
            if why:
                nv += 1
                if nv <= 8: res.violation('api-stack', {'ops': full, 'why': why, 'impl': io})
    # conversions: every i64 / f64 / string / bool value round-trips exactly, wrong types are rejected
    conv = []
    ints = [0, 1, -1, 2**63 - 1, -2**63, 42, 2**53 + 1]
    flts = ['0', '8000000000000000', '3ff0000000000000', '7ff0000000000000', '7ff8000000000000', '1', '4340000000000001', 'c00c000000000000']
    strs = ['', 'a', '"q"', 'é漢', 'a\\b', 'x\ny']
    for v in ints: conv.append((['int:%d:1' % v, 'toint:1', 'toflt:1', 'tostr:1', 'tobool:1', 'show:1'], ['u', 'i%d' % v, None, 'e', 'b1', None]))
    for b in flts: conv.append((['flt:%s:1' % b, 'toflt:1', 'toint:1', 'tostr:1', 'tobool:1'], ['u', 'f%s' % b.lstrip('0') if b.strip('0') else 'f0', 'e', 'e', 'b1']))
    for s_ in strs: conv.append((['str:%s:1' % hx(s_), 'tostr:1', 'toint:1', 'toflt:1', 'tobool:1'], ['u', 's%s' % hx(s_), 'e', 'e', 'b1']))
    conv.append((['nil:1', 'tobool:1', 'toint:1', 'tostr:1', 'show:1'], ['u', 'b0', 'e', 'e', 'v' + hx('nil')]))
    conv.append((['true:1', 'tobool:1', 'toint:1', 'show:1'], ['u', 'b1', 'e', 'v' + hx('t')]))
    cc = Case('conv')
    for ops, _ in conv: cc.lines.append('api ' + ' '.join(ops)); cc.nreq += 1
    co = core.run_side(core.TLIMPL_DEBUG, [cc]).get('conv', [])
    cm = core.run_side(core.TLMODEL, [cc]).get('conv', [])
    for (ops, exp), l, lm in zip(conv, co, cm):
        got = l.split(' API ', 1)[1].split('|')
        gm = lm.split(' API ', 1)[1].split('|')
        ncmp += 1
        for o, e, g_, m_ in zip(ops, exp, got, gm):
            if e is not None and g_ != e:
                nv += 1
                if nv <= 8: res.violation('api-conversion', {'ops': ops, 'op': o, 'expected': e, 'got': g_})
            if g_ != m_ and len(res.pending) < 10:
                res.pending.append({'ops': ops, 'op': o, 'impl': g_, 'model': m_, 'why': 'differ', 'correspondence': 'Api.step_op'})
    # the alist / plist / list helpers of the API (lists::assoc, alist_get, plist_get, length, nth, nthcdr, last)
    # against a first-match model computed here from the values the sequence builds
    def build(v, ops, nxt):
        r = nxt[0]; nxt[0] += 1
        if v is None: ops.append('nil:%d' % r)
        elif isinstance(v, int): ops.append('int:%d:%d' % (v, r))
        elif isinstance(v, str): ops.append('sym:%s:%d' % (hx(v), r))
        elif isinstance(v, tuple):
            a = build(v[0], ops, nxt); b = build(v[1], ops, nxt); ops.append('cons:%d:%d:%d' % (a, b, r))
        else:
            tail = build(None, ops, nxt)
            for e in reversed(v):
                er = build(e, ops, nxt); nr = nxt[0]; nxt[0] += 1
                ops.append('cons:%d:%d:%d' % (er, tail, nr)); tail = nr
            return tail
        return r
    def pshow(v):
        if v is None: return 'nil'
        if isinstance(v, (int, str)): return str(v)
        if isinstance(v, tuple):
            return '(%s)' % pshow(v[0]) if v[1] is None else ('(%s %s' % (pshow(v[0]), pshow(v[1])[1:]) if isinstance(v[1], (tuple, list)) and v[1] else '(%s . %s)' % (pshow(v[0]), pshow(v[1])))
        return '(' + ' '.join(pshow(e) for e in v) + ')' if v else 'nil'
    helper_cases = []
    keys = ['a', 'b', 'c', 'k']
    for _ in range(tier_n(tier, 400, 8000)):
        al = []
        for _ in range(rng.choice([0, 1, 2, 3, 4])):
            x = rng.random()
            if x < 0.7: al.append((rng.choice(keys), rng.choice([None, 1, 2, [1, 2], 'v'])))
            elif x < 0.85: al.append(rng.choice([5, 'a']))               # not a pair: skipped
            else: al.append((rng.choice(keys), None))
        key = rng.choice(keys); dflt = rng.choice([None, None, 7, 'dflt'])
        pl = []
        # values may be symbols that are also used as keys: only even positions are keys
        for _ in range(rng.choice([0, 1, 2, 3, 4])): pl += [rng.choice(keys), rng.choice([None, 1, [3], 'a', 'b', 'k'])]
        if rng.random() < 0.2: pl.append(rng.choice(keys))          # odd length: a key without value at the end
        ops = []; nxt = [10]
        ra = build(al, ops, nxt); rk = build(key, ops, nxt); rd = build(dflt, ops, nxt) if dflt is not None else 0
        rp = build(pl, ops, nxt)
        n = rng.choice([-1, 0, 1, 2, 5])
        ops += ['assoc:%d:%d:1' % (rk, ra), 'show:1', 'alistget:%d:%d:%d:2' % (rk, ra, rd), 'show:2', 'plistget:%d:%d:3' % (rp, rk), 'show:3',
                'len:%d' % ra, 'nth:%d:%d:4' % (n, ra), 'show:4', 'nthcdr:%d:%d:5' % (n, ra), 'show:5', 'last:%d:6' % ra, 'show:6', 'show:%d' % ra]
        pair = next((e for e in al if isinstance(e, tuple) and e[0] == key), None)
        exp_assoc = pshow(pair)
        exp_get = pshow(pair[1]) if pair is not None else pshow(dflt)
        exp_pl = 'nil'
        for i in range(0, len(pl) - 1, 2):
            if pl[i] == key: exp_pl = pshow(pl[i + 1]); break
        exp_nth = pshow(al[n]) if 0 <= n < len(al) else ('nil' if n >= 0 else pshow(al[0]) if al else 'nil')
        exp_cdr = pshow(al[n:] if n > 0 else al) if n < len(al) else 'nil'
        exp_last = pshow(al[-1:]) if al else 'nil'
        helper_cases.append((ops, {len(ops) - 13: exp_assoc, len(ops) - 11: exp_get, len(ops) - 9: exp_pl, len(ops) - 8: 'i%d' % len(al),
                                   len(ops) - 6: exp_nth, len(ops) - 4: exp_cdr, len(ops) - 2: exp_last, len(ops) - 1: pshow(al)}))
    hc = Case('helpers')
    for ops, _ in helper_cases: hc.lines.append('api ' + ' '.join(ops)); hc.nreq += 1
    ho = core.run_side(core.TLIMPL_DEBUG, [hc], announce=True).get('helpers', [])
    for (ops, exp), l in zip(helper_cases, ho):
        if ' API ' not in l or l.endswith('PANIC'):
            nv += 1
            if nv <= 8: res.violation('api-panic', {'ops': ops, 'why': 'a list helper panicked or aborted'})
            continue
        got = l.split(' API ', 1)[1].split('|')
        ncmp += 1
        for j, e in exp.items():
            g_ = got[j] if j < len(got) else '?'
            gv = unhx(g_[1:]) if g_[:1] == 'v' else g_
            if gv != e:
                nv += 1
                if nv <= 8: res.violation('api-list-helper', {'ops': ops, 'op': ops[j - 1] if ops[j].startswith('show') else ops[j], 'expected': e, 'got': gv,
                                                              'why': 'alist / plist / list helper disagrees with the first-match sequence model'})
                break
    res.cov['list_helper_cases'] = len(helper_cases)
    # ---- API entry points outside the register model: typed iterators, conversions through references and Option, &str, Rc<dyn Any>,
    # collect / alist_from / plist_from, destruct_bind! (seven pattern shapes), ctx.eval / eval_and_then / funcall / map / filter / reduce
    import struct as _st
    class Sy(str): pass
    class St(str): pass
    class Dot:
        def __init__(s, items, tail): s.items = items; s.tail = tail
    def fbits(x): return '%x' % _st.unpack('>Q', _st.pack('>d', x))[0]
    def b2(v, ops, nxt):
        r = nxt[0]; nxt[0] += 1
        if v is None: ops.append('nil:%d' % r)
        elif v is True: ops.append('true:%d' % r)
        elif isinstance(v, Sy): ops.append('sym:%s:%d' % (hx(str(v)), r))
        elif isinstance(v, St): ops.append('str:%s:%d' % (hx(str(v)), r))
        elif isinstance(v, int): ops.append('int:%d:%d' % (v, r))
        elif isinstance(v, float): ops.append('flt:%s:%d' % (fbits(v).rjust(16, '0'), r))
        else:
            items, tail = (v.items, v.tail) if isinstance(v, Dot) else (v, None)
            tl = b2(tail, ops, nxt)
            for e in reversed(items):
                er = b2(e, ops, nxt); nr = nxt[0]; nxt[0] += 1
                ops.append('cons:%d:%d:%d' % (er, tl, nr)); tl = nr
            return tl
        return r
    def ps(v):
        if v is None: return 'nil'
        if v is True: return 't'
        if isinstance(v, Sy): return str(v)
        if isinstance(v, St): return '"' + str(v).replace('\\', '\\\\').replace('"', '\\"') + '"'
        if isinstance(v, float): return repr(v)
        if isinstance(v, int): return str(v)
        items, tail = (v.items, v.tail) if isinstance(v, Dot) else (v, None)
        if not items: return ps(tail)
        return '(' + ' '.join(ps(e) for e in items) + ('' if tail is None else ' . ' + ps(tail)) + ')'
    def islist(v): return isinstance(v, (list, Dot)) and (len(v.items if isinstance(v, Dot) else v) > 0)
    def car_(v):
        if v is None: return None
        if islist(v): return (v.items if isinstance(v, Dot) else v)[0]
        raise ValueError
    def cdr_(v):
        if v is None: return None
        if islist(v):
            items, tail = (v.items, v.tail) if isinstance(v, Dot) else (v, None)
            return (Dot(items[1:], tail) if tail is not None and len(items) > 1 else (items[1:] or None) if tail is None else tail)
        raise ValueError
    def null_(v): return v is None or (isinstance(v, list) and not v)
    def db_expect(pat, v):
        req, opt, rest = {'1': (2, 0, False), '2': (1, 1, False), '3': (1, 2, False), '4': (2, 0, True), '5': (1, 1, True), '6': (0, 2, False), '7': (0, 0, True)}[pat]
        out = []
        try:
            for _ in range(req): out.append(car_(v)); v = cdr_(v)
            for _ in range(opt):
                if not null_(v): out.append(car_(v)); v = cdr_(v)
                else: out.append(None); v = None
            if rest: out.append(v)
            elif not null_(v): return 'e'
        except ValueError:
            return 'e'
        return 'D' + ','.join(hx(ps(x)) for x in out)
    atoms = [None, True, 0, 1, -7, 2**62, 1.5, -0.0, Sy('a'), Sy('b'), St(''), St('s"q'), St('é')]
    def rlist(depth=1):
        n = rng.choice([0, 1, 1, 2, 2, 3, 4, 5])
        items = [rng.choice(atoms) if depth == 0 or rng.random() < 0.8 else rlist(0) for _ in range(n)]
        items = [x if not (isinstance(x, list) and not x) else None for x in items]
        if items and rng.random() < 0.12: return Dot(items, rng.choice([1, Sy('z'), St('t')]))
        return items or None
    ex_cases = []
    def elems(v): return [] if v is None else (v.items if isinstance(v, Dot) else v)
    for _ in range(tier_n(tier, 600, 12000)):
        v = rlist() if rng.random() < 0.9 else rng.choice(atoms)
        ops = []; nxt = [10]; exp = {}
        r = b2(v, ops, nxt)
        kind = rng.choice(['iter', 'db', 'db', 'opt', 'from'])
        if kind == 'iter' and (v is None or isinstance(v, (list, Dot))):
            es = elems(v)
            def conv(e, k):
                if k == 'i': return 'i%d' % e if isinstance(e, int) and e is not True else 'e'
                if k == 'f': return 'f' + fbits(e) if isinstance(e, float) else ('f' + fbits(float(e)) if isinstance(e, int) and e is not True and abs(e) < 2**53 else ('e' if not isinstance(e, int) or e is True else None))
                if k == 's': return 's' + hx(str(e)) if isinstance(e, St) else 'e'
                if k == 'b': return 'b0' if e is None else 'b1'
                return 'v' + hx(ps(e))
            for k in 'ifsbo':
                ops.append('iter%s:%d' % (k, r))
                items_ = [conv(e, k) for e in es]
                if None not in items_: exp[len(ops) - 1] = 'L' + ','.join(items_)
        elif kind == 'db':
            pat = rng.choice('1234567')
            ops.append('db:%s:%d' % (pat, r)); exp[len(ops) - 1] = db_expect(pat, v)
        elif kind == 'opt':
            a = rng.choice(atoms + [[1, 2]])
            ops = []; nxt = [10]; r = b2(a, ops, nxt)
            isint = isinstance(a, int) and a is not True
            ops.append('optint:%d' % r); exp[len(ops) - 1] = 'n' if a is None else ('i%d' % a if isint else 'e')
            ops.append('optstr:%d' % r); exp[len(ops) - 1] = 'n' if a is None else ('s' + hx(str(a)) if isinstance(a, St) else 'e')
            ops.append('optflt:%d' % r)
            if a is None: exp[len(ops) - 1] = 'n'
            elif isinstance(a, float): exp[len(ops) - 1] = 'f' + fbits(a)
            elif not isint: exp[len(ops) - 1] = 'e'
            ops.append('optany:%d' % r); exp[len(ops) - 1] = 'n' if a is None else 'e'
            ops.append('toany:%d' % r); exp[len(ops) - 1] = 'e'
            ops.append('tointr:%d' % r); exp[len(ops) - 1] = 'i%d' % a if isint else 'e'
            ops.append('tofltr:%d' % r)
            if isinstance(a, float): exp[len(ops) - 1] = 'f' + fbits(a)
            elif not isint: exp[len(ops) - 1] = 'e'
            bx = rng.randrange(256)
            ops += ['box:%d:2' % bx, 'toany:2', 'optany:2', 'toint:2', 'tostr:2', 'tobool:2']
            exp[len(ops) - 5] = 'a%d' % bx; exp[len(ops) - 4] = 'a'; exp[len(ops) - 3] = 'e'; exp[len(ops) - 2] = 'e'; exp[len(ops) - 1] = 'b1'
            if isinstance(a, St):
                ops += ['strref:%s:3' % hx(str(a)), 'tostr:3', 'equal:3:%d' % r, 'show:3']
                exp[len(ops) - 3] = 's' + hx(str(a)); exp[len(ops) - 2] = 'b1'; exp[len(ops) - 1] = 'v' + hx(ps(a))
        else:
            es = [rng.choice(atoms) for _ in range(rng.choice([0, 1, 2, 3]) * 2)]
            ops = []; nxt = [10]
            rs = [b2(e, ops, nxt) for e in es]
            ops.append('collect:' + ':'.join(str(x) for x in rs) + (':' if rs else '') + '1'); ops.append('show:1'); exp[len(ops) - 1] = 'v' + hx(ps(es or None))
            ops.append('alistfrom:' + ':'.join(str(x) for x in rs) + (':' if rs else '') + '2'); ops.append('show:2')
            exp[len(ops) - 1] = 'v' + hx(ps([Dot([es[i]], es[i + 1]) if es[i + 1] is not None else [es[i]] for i in range(0, len(es), 2)] or None))
            ops.append('plistfrom:' + ':'.join(str(x) for x in rs) + (':' if rs else '') + '3'); ops.append('show:3'); exp[len(ops) - 1] = 'v' + hx(ps(es or None))
            if es:
                ops += ['car:1:4', 'eq:4:%d' % rs[0]]; exp[len(ops) - 1] = 'b1'        # the objects themselves, not copies
        ex_cases.append((ops, exp))
    # fixed: the context entry points that take objects
    def seq(*ops_exp):
        ops = []; exp = {}
        for o, e in ops_exp:
            ops.append(o)
            if e is not None: exp[len(ops) - 1] = e
        ex_cases.append((ops, exp))
    L = lambda *xs: list(xs)
    def mk(v, r0):
        ops = []; nxt = [r0]; r = b2(v, ops, nxt); return ops, r
    o1, r1 = mk(L(1, 2), 20); o2, r2 = mk(L(L(Sy('a'), Sy('b')), Sy('c')), 40); o3, r3 = mk(L(1, 2, 3), 60); o4, r4 = mk(L(Sy('a'), Sy('b')), 80)
    o5, r5 = mk(L(Sy('quote'), L(Sy('a'), Sy('b'))), 100)
    seq(*[(o, None) for o in o1], ('evals:%s:1' % hx('(lambda (a b) (list b a))'), 'u'), ('ctxfuncall:1:%d:2' % r1, 'u'), ('show:2', 'v' + hx('(2 1)')))
    seq(*[(o, None) for o in o2], ('sym:%s:1' % hx('list'), 'u'), ('ctxfuncall:1:%d:2' % r2, 'u'), ('show:2', 'v' + hx('((a b) c)')), ('show:%d' % r2, 'v' + hx('((a b) c)')))
    seq(*[(o, None) for o in o3], ('sym:%s:1' % hx('+'), 'u'), ('ctxfuncall:1:%d:2' % r3, 'u'), ('show:2', 'v' + hx('6')), ('int:10:3', 'u'), ('ctxreduce:1:%d:3:4' % r3, 'u'), ('show:4', 'v' + hx('16')),
        ('sym:%s:5' % hx('1+'), 'u'), ('ctxmap:5:%d:6' % r3, 'u'), ('show:6', 'v' + hx('(2 3 4)')), ('evals:%s:7' % hx('(lambda (x) (> x 1))'), 'u'), ('ctxfilter:7:%d:8' % r3, 'u'), ('show:8', 'v' + hx('(2 3)')),
        ('show:%d' % r3, 'v' + hx('(1 2 3)')))
    seq(*[(o, None) for o in o4], ('evals:%s:1' % hx('(lambda (acc x) (list acc x))'), 'u'), ('sym:%s:2' % hx('z'), 'u'), ('ctxreduce:1:%d:2:3' % r4, 'u'), ('show:3', 'v' + hx('((z a) b)')),
        ('evals:%s:4' % hx('(lambda (x) (list x))'), 'u'), ('ctxmap:4:%d:5' % r4, 'u'), ('show:5', 'v' + hx('((a) (b))')), ('nil:6', 'u'), ('ctxmap:4:6:7', 'u'), ('show:7', 'v' + hx('nil')),
        ('ctxfuncall:4:%d:8' % r4, 'e'))
    seq(*[(o, None) for o in o5], ('ctxeval:%d:1' % r5, 'u'), ('show:1', 'v' + hx('(a b)')), ('evalthen:%d' % r5, 'v' + hx('(a b)')), ('sym:%s:2' % hx('xv'), 'u'), ('evalthen:2', 'e'), ('int:5:3', 'u'), ('set:2:3', 'u'),
        ('evalthen:2', 'v' + hx('5')), ('ctxeval:2:4', 'u'), ('eq:4:3', 'b1'), ('evalthen:3', 'v' + hx('5')), ('sym:%s:5' % hx('no-such-fn'), 'u'), ('ctxfuncall:5:%d:6' % r5, 'e'))
    o6, r6 = mk(L(1, St('two'), 3.5), 120)
    seq(*[(o, None) for o in o6], ('evaleach:%d:1' % r6, 'u'), ('eq:1:%d' % r6, 'b0'), ('int:99:2', 'u'), ('push:1:2', 'u'), ('show:%d' % r6, 'v' + hx('(1 "two" 3.5)')), ('show:1', 'v' + hx('(1 "two" 3.5 99)')),
        ('nil:3', 'u'), ('evaleach:3:4', 'u'), ('push:4:2', 'u'), ('show:3', 'v' + hx('nil')), ('show:4', 'v' + hx('(99)')), ('evaleach:%d:5' % r6, 'u'), ('show:5', 'v' + hx('(1 "two" 3.5)')))
    o7, r7 = mk(L(1, 2, 3), 140)
    seq(*[(o, None) for o in o7], ('evals:%s:1' % hx("(setq dcount 0)"), 'u'), ('evals:%s:2' % hx("'(progn (setq dcount (+ dcount 1)) 1+)"), 'u'), ('ctxmap:2:%d:3' % r7, 'u'), ('show:3', 'v' + hx('(2 3 4)')),
        ('evals:%s:4' % hx('dcount'), 'u'), ('show:4', 'v' + hx('1')), ('nil:5', 'u'), ('ctxmap:2:5:6', 'u'), ('evals:%s:7' % hx('dcount'), 'u'), ('show:7', 'v' + hx('2')),
        ('evals:%s:8' % hx("'(progn (setq dcount (+ dcount 10)) +)"), 'u'), ('int:0:9', 'u'), ('ctxreduce:8:%d:9:10' % r7, 'u'), ('show:10', 'v' + hx('6')), ('evals:%s:11' % hx('dcount'), 'u'), ('show:11', 'v' + hx('12')),
        ('sym:%s:12' % hx('no-such-fn'), 'u'), ('ctxmap:12:5:13', 'e'), ('ctxfilter:12:5:13', 'e'))
    xc = Case('extras')
    for ops, _ in ex_cases: xc.lines.append('api ' + ' '.join(ops)); xc.nreq += 1
    xo = core.run_side(core.TLIMPL_DEBUG, [xc], announce=True).get('extras', [])
    nx = 0
    for (ops, exp), l in zip(ex_cases, xo):
        if ' API ' not in l or l.endswith('PANIC'):
            nv += 1
            if nv <= 8: res.violation('api-panic', {'ops': ops, 'why': 'an API call panicked or aborted'})
            continue
        got = l.split(' API ', 1)[1].split('|')
        ncmp += 1; nx += 1
        for j, e in sorted(exp.items()):
            g_ = got[j] if j < len(got) else '?'
            if g_ != e:
                nv += 1
                def rd(x): return x[0] + unhx(x[1:]) if x[:1] in 'vs' and len(x) > 1 else (','.join(unhx(y) for y in x[1:].split(',')) if x[:1] == 'D' else x)
                if nv <= 8: res.violation('api-extras', {'ops': ops, 'op': ops[j], 'expected': rd(e), 'got': rd(g_),
                                                         'why': 'typed iterator / conversion / list constructor / destruct_bind! / context entry point disagrees with the sequence model'})
                break
    if len(xo) != len(ex_cases):
        nv += 1; res.violation('api-panic', {'why': 'the API run stopped after %d of %d sequences' % (len(xo), len(ex_cases)), 'ops': ex_cases[len(xo)][0] if len(xo) < len(ex_cases) else None})
    res.cov['api_extra_cases'] = nx
    # a host macro registered with add_macro: called with the unevaluated argument forms, its result evaluated once
    mc = []
    for k, (text, want, ticks) in enumerate([
            ("(host-rev (tick 1 1) (tick 2 2))", '(2 1)', '2:2,1:1'), ("(macroexpand '(host-rev a b c))", '(list c b a)', '-'), ("(host-rev)", 'nil', '-'),
            ("(let ((x 1)) (host-rev x 'x))", '(x 1)', '-'), ("(defun hr (a b) (host-rev a (tick 3 b))) (hr 1 2)", '(2 1)', '3:2'), ("(macroexpand '(when (host-rev 1 2) (host-rev 3)))", '(if (list 2 1) (progn (list 3)))', '-'),
            ("(host-rev (host-rev 1 2) 3)", '(3 (2 1))', '-'),
            # a host function that modifies its rest list: the list is its own, not the argument list of the calling form
            ('(defun hc () (host-collect 1 "two" 3.0)) (list (hc) (hc) (hc))', '((1 "two" 3.0 99) (1 "two" 3.0 99) (1 "two" 3.0 99))', '-'),
            ("(defun hc0 () (host-collect)) (list (hc0) (hc0))", '((99) (99))', '-'),
            ("(setq form '(host-collect 1 :k nil t)) (list (eval form) (eval form) form)", '((1 :k nil t 99) (1 :k nil t 99) (host-collect 1 :k nil t))', '-'),
            ("(setq q 5) (defun hq () (host-collect q 'a (tick 4 2))) (list (hq) (hq))", '((5 a 2 99) (5 a 2 99))', '4:2,4:2'),
            # map / filter / reduce resolve the function designator ONCE, before the first element, also for an empty sequence
            ("(setq step (lambda (x) (setq step (lambda (y) (* 100 y))) x)) (list (seq-map 'step '(1 2 3)) (funcall step 1))", '((1 2 3) 100)', '-'),
            ("(setq keep (lambda (x) (setq keep (lambda (y) nil)) t)) (seq-filter 'keep '(1 2 3))", '(1 2 3)', '-'),
            ("(setq add (lambda (a b) (setq add (lambda (p q) 0)) (+ a b))) (seq-reduce 'add '(1 2 3) 10)", '16', '-'),
            ("(mapcar 'no-such-function nil)", 'E', '-'), ("(seq-reduce 'no-such-function nil 5)", 'E', '-'), ("(seq-filter 'no-such-function '())", 'E', '-')]):
        c = Case('hm%d' % k); c.eval(text); mc.append((c, want, ticks))
    mo_ = core.run_side(core.TLIMPL_DEBUG, [c for c, _, _ in mc], announce=True)
    for c, want, ticks in mc:
        ls = mo_.get(c.cid, [])
        ncmp += 1
        ok_ = False
        if ls:
            _, kind, payload, tk_ = core.parse_line(ls[-1])
            tk_ = '-' if tk_ in (None, '-') else ','.join('%s:%s' % (x.split(':')[0], unhx(x.split(':')[1])) for x in tk_.split(','))
            ok_ = (kind == 'E' and tk_ == ticks) if want == 'E' else (kind == 'V' and unhx(payload) == want and tk_ == ticks)
        if not ok_:
            nv += 1
            if nv <= 8: res.violation('api-host-macro', {'requests': c.readable(), 'expected': want, 'expected_ticks': ticks, 'line': decode_line(ls[-1]) if ls else None,
                                                         'why': 'a macro registered with add_macro is not applied to the unevaluated argument forms with its result evaluated once'})
    # host functions: declared parameter types, optional and rest parameters, each argument evaluated once
    hitems = []
    for _ in range(tier_n(tier, 600, 15000)):
        tid = [0]
        def tk(e): tid[0] += 1; return '(tick %d %s)' % (tid[0], e)
        vals = ['1', '2', '-3', '2.5', '"s"', "'sym", 'nil', "'(1 2)", 't', '(+ 1 2)', 'v']
        f = rng.choice(['host-opt', 'host-conv', 'host-add'])
        n = rng.choice([0, 1, 2, 3, 4, 5])
        args = [tk(rng.choice(vals)) for _ in range(n)]
        if rng.random() < 0.6:
            if f == 'host-opt': args = [tk(rng.choice(['1', '7', 'v']))] + [tk(rng.choice(['2', 'nil', 'v'])) for _ in range(min(1, max(0, n - 1)))] + args[2:]
            elif f == 'host-conv': args = [tk(rng.choice(['"a"', '"é"'])), tk(rng.choice(['1', '2.5', 'v'])), tk(rng.choice(['t', 'nil', '5']))][:max(n, 3)]
            else: args = [tk(rng.choice(['1', 'v'])), tk(rng.choice(['2', '9223372036854775807']))]
        call = '(%s %s)' % (f, ' '.join(args))
        route = rng.choice(['direct', 'funcall', 'mapcar'])
        if route == 'funcall': call = "(funcall '%s %s)" % (f, ' '.join(args))
        elif route == 'mapcar' and f == 'host-opt': call = "(mapcar 'host-opt (list %s))" % ' '.join(args)
        hitems.append(('(setq v 5) ' + call, {}))
    for _ in range(tier_n(tier, 200, 4000)):
        lst = rng.choice(["'('a (quote b) \"s\" (1 2) c nil)", "'(x y)", "'((+ 1 2) 'q ''r)", "(list ''a 1)", "'(:k \"x\")"])
        form = rng.choice(["(mapcar 'host-id %s)", "(seq-map #'host-id %s)", "(seq-filter 'host-id %s)", "(seq-find 'host-id %s)", "(funcall 'host-id (car %s))",
                           "(seq-reduce (lambda (acc e) (cons (host-id e) acc)) %s nil)", "(sort %s (lambda (p q) (host-id nil)))", "(mapcar (lambda (e) (host-conv \"k\" 1 e)) %s)"])
        hitems.append(('(setq c 7) (setq x 8) ' + form % lst, {}))
    rows = run_exprs(res, hitems, per_case=25, tag='h')
    res.cov['evaluations'] += ncmp
    res.cov['skipped_outside_model'] = res.cov.get('skipped_outside_model', 0) + nskip
    res.cov['distinct_nontrivial'] = len(distinct)
    res.cov['exhaustive'] = True
    res.cov['exhaustive_space'] = 'all sequences of up to %d operations out of %d (push, append, car, cdr, deep_copy, handle copy, cons, list!, set, set_scope, unset, get, boundp over 3 object registers and 2 symbols) = %d sequences' % (klen, len(OPS), nex)
    res.cov['rule'] = ('object / symbol API call sequences interpreted by the harness and by the heap model (objects are cells with identity: aliasing through cdr handles, in-place push, copying append); '
                       'after every sequence all registers are printed, iterated, compared and converted; exhaustive short sequences and random ones up to 30 operations; oracle: Python stack model for '
                       'set / set_scope / unset / get / boundp incl. a constant symbol, exact round trip of i64 / f64 (bit patterns incl. NaN, inf, -0.0) / String / bool conversions and rejection of wrong types; '
                       'lists::assoc / alist_get (with and without default, nil-valued pairs, non-pair elements) / plist_get / length / nth / nthcdr / last on built structures against a first-match model; host functions with i64 / Option<i64> / rest / String / f64 parameters called with ticked arguments directly, via funcall and mapcar; correspondence with the model; '
                       '%d further sequences against a Python sequence model: typed iterators iter::<i64|f64|String|bool|TulispObject> (one converted item or error per element, dotted tail ignored), conversions through &TulispObject, Option<T>, &str and Rc<dyn Any>, collect / alist_from / plist_from (the objects themselves, in order), destruct_bind! in its seven pattern shapes on proper, short, long and dotted lists and atoms, '
                       'ctx.eval / eval_and_then / funcall / map / filter / reduce on objects (arguments not evaluated, argument lists not modified), and a host macro registered with add_macro (unevaluated forms in, result evaluated once, expanded at read time)' % nx)
    res.cov['samples'] = [' '.join(API_PRELUDE + seqs[len(seqs) // 2] + API_DUMP)]
    for d in res.pending:
        res.violation('disagreement', d, no_input=not oracle_confirms(d))
    return res.finish(gate)

CHECKS['C20'] = check_C20
