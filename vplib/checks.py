"""Per-property checks."""
import os, sys, time, json, random, re, subprocess
from . import core
from .core import Case, hx, unhx
from .gen import programs
from .gen.sexp import render, Q, Str

TRUSTED_BASE = [
    'Coq 8.16.1 kernel (coqc; coqchk in the thorough tier); no native_compute',
    'no axioms declared; Print Assumptions of every property theorem must be "Closed under the global context" (float operations are a Section variable / record argument, not axioms)',
    'extraction: ExtrOcamlBasic only (Extract Inductive bool, option, unit, prod, list, sumbool, sumor); no Extract Constant',
    'OCaml driver ocaml/driver.ml incl. its binary64 oracle (hardware doubles, shortest round-trip printing)',
    'Rust harness harness/src/main.rs, generators and comparison in vplib/',
    'hand-written model coq/Model/*.v: all of tulisp is modelled rather than verified; the tie is the correspondence run of this check',
    'not modelled: RefCell borrow state, Rc counts/Drop, ctxobj caching, object identity of heap values (eq on conses/strings), println output, real file-system errors',
]

def tier_n(tier, quick, thorough):
    return quick if tier == 'quick' else thorough

# ---------------------------------------------------------------- proof gate
FORBIDDEN = re.compile(r'\b(Admitted|admit|Axiom|Parameter|Conjecture|Unset Guard|bypass_check|type-in-type|Admit Obligations)\b')

def proof_gate(prop):
    """Builds the Coq development and inspects Props/<prop>.v.
    Returns dict(obligations, discharged, theorems, problems, axioms)."""
    rc, out = core.build_coq()
    problems = []
    if rc != 0:
        problems.append('coq build failed: ' + out[-1500:])
    # forbidden vocabulary anywhere in the development
    for d, _, fs in os.walk(core.COQ):
        for f in fs:
            if f.endswith('.v'):
                txt = open(os.path.join(d, f)).read()
                txt_nc = re.sub(r'\(\*.*?\*\)', '', txt, flags=re.S)
                m = FORBIDDEN.search(txt_nc)
                if m:
                    problems.append('%s uses %s' % (f, m.group(1)))
    pfile = os.path.join(core.COQ, 'Props', prop + '.v')
    theorems = []
    if not os.path.exists(pfile):
        return {'obligations': 0, 'discharged': 0, 'theorems': [], 'problems': problems + ['no Props file'], 'axioms': []}
    txt = open(pfile).read()
    theorems = re.findall(r'^(?:Theorem|Corollary)\s+(\w+)', txt, flags=re.M)
    # re-run coqc on the property file alone to capture Print Assumptions output
    discharged = 0
    axioms = []
    if rc == 0:
        rc2, out2 = core.sh('coqc -Q . TL Props/%s.v' % prop, cwd=core.COQ, check=False, timeout=900)
        if rc2 != 0:
            problems.append('Props/%s.v does not compile: %s' % (prop, out2[-800:]))
        else:
            closed = out2.count('Closed under the global context')
            ax = re.findall(r'^Axioms:\n((?:.+\n)+)', out2, flags=re.M)
            if ax:
                axioms = [a.strip() for a in ax]
                problems.append('property theorems depend on axioms: ' + '; '.join(axioms)[:500])
            discharged = min(closed, len(theorems)) if not ax else 0
            if closed < len(theorems):
                problems.append('only %d of %d theorems print "Closed under the global context"' % (closed, len(theorems)))
    return {'obligations': len(theorems), 'discharged': discharged, 'theorems': theorems,
            'problems': problems, 'axioms': axioms}

# ---------------------------------------------------------------- generic finish
class Result:
    def __init__(self, prop, tier, seed):
        self.prop, self.tier, self.seed = prop, tier, seed
        self.t0 = time.time()
        self.violations = []      # (replay_path, suffix)
        self.known = []
        self.cov = {'evaluations': 0, 'distinct_nontrivial': 0, 'samples': [], 'rule': ''}
        self.notes = []

    def violation(self, name, obj, no_input=False):
        path = core.write_replay(self.prop, name, obj)
        self.violations.append((path, ' no-failing-input-found' if no_input else ''))

    def finish(self, gate, level='proof', assumptions=None):
        cov = dict(self.cov)
        cov.update({'obligations': gate['obligations'], 'discharged': gate['discharged'],
                    'checker_cmd': 'make -C coq (coqc 8.16.1, full .vo build) + coqc Props/%s.v (Print Assumptions)' % self.prop,
                    'trusted_base': TRUSTED_BASE, 'theorems': gate['theorems'],
                    'explanation': '; '.join(self.notes)})
        if gate['problems']:
            self.violation('proof-gate', {'kind': 'proof obligation no longer checks',
                                          'theorems': gate['theorems'], 'problems': gate['problems']},
                           no_input=True)
        core.write_evidence(self.prop, self.tier, self.seed, level, cov, time.time() - self.t0,
                            violations=len(self.violations), assumptions=assumptions or [])
        for k in self.known:
            print('KNOWN-FINDING: property=%s %s' % (self.prop, k))
        for path, suffix in self.violations[:20]:
            print('VIOLATION property=%s replay=%s%s' % (self.prop, path, suffix))
        sys.stdout.flush()
        return 1 if self.violations else 0

def sample_cases(cases, k=3):
    return [{'case': c.cid, 'requests': c.readable()} for c in cases[:k]]

def known_findings(prop):
    p = os.path.join(core.ROOT, 'known_findings.json')
    if not os.path.exists(p): return []
    return [k for k in json.load(open(p)).get('findings', []) if k['property'] == prop]

def replay_known(res, prop, impl_bin):
    """Replays the witness of each listed finding; prints KNOWN-FINDING while it still fails."""
    for k in known_findings(prop):
        c = Case('kf')
        for t in k['witness']:
            c.eval(t)
        out = core.run_side(impl_bin, [c])
        lines = out.get('kf', [])
        if not lines: continue
        idx, kind, payload, ticks = core.parse_line(lines[-1])
        got = unhx(payload) if kind == 'V' else kind
        if got == k['as_built']:
            res.known.append('%s: %s' % (k['id'], k['what']))
        elif got != k['prescribed']:
            res.violation('known-finding-changed', {'finding': k, 'got': got})

# ---------------------------------------------------------------- differential helper
def differential(res, cases, impl_bin=None, observe=core.default_observe, env=None, label='corr'):
    impl_bin = impl_bin or core.TLIMPL_DEBUG
    impl = core.run_side(impl_bin, cases, env=env, announce=True)
    model = core.run_side(core.TLMODEL, cases, env=env)
    ncmp, nskip, dis = core.compare(cases, impl, model, observe)
    res.cov['evaluations'] += ncmp
    res.cov['skipped_outside_model'] = res.cov.get('skipped_outside_model', 0) + nskip
    res.cov['disagreements_checked'] = res.cov.get('disagreements_checked', 0) + len(dis)
    byid = {c.cid: c for c in cases}
    for d in dis[:10]:
        c = byid[d['case']]
        d2 = dict(d); d2['requests'] = c.readable(); d2['correspondence'] = label
        d2['impl_decoded'] = decode_line(d['impl']); d2['model_decoded'] = decode_line(d['model'])
        d2['raw_case'] = c.text()
        res.pending.append(d2)
    return impl, model, dis

def decode_line(l):
    if not l: return None
    try:
        idx, kind, payload, ticks = core.parse_line(l)
        if kind == 'V': payload = unhx(payload)
        if kind == 'PARSE' and payload.startswith('ok '): payload = 'ok ' + unhx(payload[3:])
        if kind == 'VARS':
            payload = ';'.join('%s=%s:%s' % (unhx(a.split('=')[0]), a.split('=')[1].split(':')[0],
                               ','.join(unhx(v) for v in a.split(':', 1)[1].split(',') if v))
                               for a in payload.split(';') if a)
        t = None
        if ticks and ticks not in ('-', '?'):
            t = [(x.split(':')[0], unhx(x.split(':')[1])) for x in ticks.split(',')]
        return {'kind': kind, 'payload': payload, 'ticks': t}
    except Exception as e:
        return {'raw': l}

# ---------------------------------------------------------------- C01 / C03
def gen_histories(rng, n, **kw):
    cases = []
    stats = {}
    for i in range(n):
        g = programs.ProgGen(rng, **kw)
        texts = g.history()
        c = Case('h%d' % i, meta={'texts': texts})
        for t in texts:
            c.eval(programs.render_text(t))
            c.vars(g.all_vars())
        cases.append(c)
        for k, v in g.stats.items(): stats[k] = stats.get(k, 0) + v
    return cases, stats

def check_C01(tier, seed):
    res = Result('C01', tier, seed); res.pending = []
    gate = proof_gate('C01')
    core.build_model(); core.build_impl()
    rng = random.Random(seed)
    n = tier_n(tier, 1500, 40000)
    cases, stats = gen_histories(rng, n)
    impl, model, dis = differential(res, cases)
    nontriv = set()
    for c in cases:
        for l in impl.get(c.cid, []):
            idx, kind, payload, ticks = core.parse_line(l)
            if kind in ('V', 'E') and ticks not in ('-', None):
                nontriv.add((kind, payload, ticks))
    res.cov['distinct_nontrivial'] = len(nontriv)
    res.cov['rule'] = ('random histories (1-4 texts: definitions, then programs) over the core forms from a typed grammar, '
                       'sub-expressions wrapped in (tick ID e); implementation and extracted Coq model compared on value/error class, '
                       'tick log and all six program variables after every text; non-trivial = distinct (outcome, tick log) with a non-empty log')
    res.cov['generator_distribution'] = stats
    res.cov['samples'] = sample_cases(cases)
    replay_known(res, 'C01', core.TLIMPL_DEBUG)
    for d in res.pending:
        res.violation('disagreement', d, no_input=not oracle_confirms(d))
    return res.finish(gate)

def oracle_confirms(d):
    """The model provably has the property; an implementation answer that differs from it on an
    observable the property speaks about (value, error class, order of effects, variable state) is the
    failing input itself."""
    return d.get('why') == 'differ'

CHECKS = {'C01': check_C01}

# ---------------------------------------------------------------- C03
BINDERS = {'let', 'let*', 'dolist', 'dotimes', 'lambda', 'defun', 'defmacro'}

def ticks_under_binders(x, under=False, acc=None):
    from .gen.sexp import Wrap, Dot
    if acc is None: acc = set()
    if isinstance(x, Wrap): ticks_under_binders(x.x, under, acc)
    elif isinstance(x, Dot):
        for i in x.items: ticks_under_binders(i, under, acc)
        ticks_under_binders(x.tail, under, acc)
    elif isinstance(x, (list, tuple)) and x:
        if x[0] == 'tick' and len(x) == 3 and under: acc.add(x[1])
        u = under or (isinstance(x[0], str) and x[0] in BINDERS)
        for i in x: ticks_under_binders(i, u, acc)
    return acc

def vars_depth_oracle(line):
    """Top level, after a request: every program variable has at most its global binding."""
    idx, kind, payload, _ = core.parse_line(line)
    bad = []
    if kind != 'VARS': return bad
    for a in payload.split(';'):
        if not a: continue
        name, rest = a.split('=')
        depth = int(rest.split(':')[0])
        if depth > 1: bad.append((unhx(name), depth))
    return bad

def check_C03(tier, seed):
    res = Result('C03', tier, seed); res.pending = []
    gate = proof_gate('C03')
    core.build_model(); core.build_impl()
    rng = random.Random(seed)
    n = tier_n(tier, 250, 6000)
    maxk = tier_n(tier, 10, 40)
    hist = []; allvars = []
    stats = {}
    for i in range(n):
        g = programs.ProgGen(rng, tick_p=0.5, err_p=0.01)
        texts = g.history(ntexts=rng.choice([1, 2]))
        hist.append(texts); allvars.append(g.all_vars())
        for k, v in g.stats.items(): stats[k] = stats.get(k, 0) + v
    # phase 1: fault-free, to learn the number of probe points of every request
    base = []
    for i, texts in enumerate(hist):
        c = Case('b%d' % i)
        for t in texts: c.eval(programs.render_text(t))
        base.append(c)
    impl0 = core.run_side(core.TLIMPL_DEBUG, base, announce=True)
    cases = []
    crossing = 0
    for i, texts in enumerate(hist):
        lines = impl0.get('b%d' % i, [])
        under = set()
        for t in texts: ticks_under_binders(t, False, under)
        for r, t in enumerate(texts):
            if r >= len(lines): break
            _, kind, payload, ticks = core.parse_line(lines[r])
            tl = [] if ticks in ('-', '?', None) else ticks.split(',')
            nt = len(tl)
            ks = list(range(1, nt + 1))
            if len(ks) > maxk: ks = sorted(rng.sample(ks, maxk))
            for k in ks:
                c = Case('h%d_r%d_k%d' % (i, r, k))
                for r2, t2 in enumerate(texts):
                    c.failat(k if r2 == r else None)
                    c.eval(programs.render_text(t2))
                    c.vars(allvars[i])
                # follow-up request: reads every variable
                c.failat(None)
                c.eval('(list ' + ' '.join("(if (boundp '%s) %s 'unbound)" % (v, v) for v in allvars[i]) + ')')
                c.meta = {'under': int(tl[k - 1].split(':')[0]) in under}
                cases.append(c)
    impl, model, dis = differential(res, cases)
    # model-free oracle on the implementation
    byid = {c.cid: c for c in cases}
    nbad = 0
    distinct = set()
    for c in cases:
        ls = impl.get(c.cid, [])
        for l in ls:
            bad = vars_depth_oracle(l)
            if bad and nbad < 10:
                nbad += 1
                res.violation('stale-binding', {'requests': c.readable(), 'stale': bad, 'line': decode_line(l),
                                                'oracle': 'after a top-level request every variable has depth <= 1',
                                                'raw_case': c.text()})
        if c.meta.get('under') and any(core.parse_line(l)[1] == 'E' for l in ls):
            distinct.add(tuple(ls))
    res.cov['distinct_nontrivial'] = len(distinct)
    res.cov['rule'] = ('random histories; every request is re-run once per probe point k (the k-th (tick ..) evaluation fails), '
                       'up to %d points per request; after every request the binding depth and values of the six program variables '
                       'are read back (boundp/get/unset/set_scope) and a follow-up request reads them; oracle: depth <= 1 at top level, '
                       'and the whole transcript equals the extracted model; non-trivial = distinct transcripts whose injected failure '
                       'was lexically inside let/let*/dolist/dotimes/lambda/defun' % maxk)
    res.cov['generator_distribution'] = stats
    res.cov['histories'] = n
    res.cov['samples'] = sample_cases(cases)
    for d in res.pending:
        res.violation('disagreement', d, no_input=not oracle_confirms(d))
    return res.finish(gate)

CHECKS['C03'] = check_C03
