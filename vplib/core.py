"""Core of the checker: builds, case protocol, sharded differential runs."""
import os, sys, subprocess, json, time, hashlib, fcntl, random, re, shutil, tempfile

ROOT = os.path.dirname(os.path.dirname(os.path.abspath(__file__)))
BUILD = os.path.join(ROOT, 'build')
COQ = os.path.join(ROOT, 'coq')
REPO = os.environ.get('TL_REPO', '/repo')
NPROC = int(os.environ.get('TL_NPROC', '16'))
TLMODEL = os.path.join(BUILD, 'tlmodel')
TLIMPL_DEBUG = os.environ.get('VERIF_TLIMPL_DEBUG') or os.path.join(BUILD, 'cargo', 'debug', 'tlimpl')   # the override is for coverage measurement (bin/coverage)
TLIMPL_RELEASE = os.path.join(BUILD, 'cargo', 'release', 'tlimpl')

def hx(s):
    b = s.encode('utf-8')
    return b.hex() if b else '-'

def unhx(h):
    return '' if h == '-' else bytes.fromhex(h).decode('utf-8', 'replace')

class Lock:
    def __init__(self, name):
        os.makedirs(BUILD, exist_ok=True)
        self.path = os.path.join(BUILD, name + '.lock')
    def __enter__(self):
        self.f = open(self.path, 'w')
        fcntl.flock(self.f, fcntl.LOCK_EX)
        return self
    def __exit__(self, *a):
        fcntl.flock(self.f, fcntl.LOCK_UN)
        self.f.close()

def sh(cmd, cwd=None, env=None, timeout=3600, check=True):
    e = dict(os.environ)
    e['CARGO_NET_OFFLINE'] = 'true'
    if env: e.update(env)
    p = subprocess.run(cmd, cwd=cwd, env=e, shell=isinstance(cmd, str),
                       stdout=subprocess.PIPE, stderr=subprocess.STDOUT, timeout=timeout)
    out = p.stdout.decode('utf-8', 'replace')
    if check and p.returncode != 0:
        raise RuntimeError('command failed (%d): %s\n%s' % (p.returncode, cmd, out[-4000:]))
    return p.returncode, out

# ---------------------------------------------------------------- builds
def build_coq():
    """Full .vo build of the Coq development (no -vos)."""
    with Lock('coq'):
        if not os.path.exists(os.path.join(COQ, 'Makefile')) or \
           os.path.getmtime(os.path.join(COQ, '_CoqProject')) > os.path.getmtime(os.path.join(COQ, 'Makefile')):
            sh('coq_makefile -f _CoqProject -o Makefile', cwd=COQ)
        rc, out = sh('timeout 3000 make -j%d 2>&1' % NPROC, cwd=COQ, check=False, timeout=3100)
        os.makedirs(os.path.join(BUILD, 'logs'), exist_ok=True)
        # keep the log of the last non-trivial build: it holds Print Assumptions output
        if 'COQC' in out or rc != 0:
            open(os.path.join(BUILD, 'logs', 'coq_make.log'), 'a').write(out)
        return rc, out

def build_model():
    with Lock('model'):
        src = [os.path.join(COQ, 'Extract', 'Extract.v'), os.path.join(ROOT, 'ocaml', 'driver.ml')]
        vos = []
        for d, _, fs in os.walk(COQ):
            for f in fs:
                if f.endswith('.v') and ('/Model' in d or '/Base' in d or '/Extract' in d):
                    vos.append(os.path.join(d, f))
        newest = max(os.path.getmtime(p) for p in src + vos)
        if os.path.exists(TLMODEL) and os.path.getmtime(TLMODEL) >= newest:
            return
        ex = os.path.join(BUILD, 'extracted')
        os.makedirs(ex, exist_ok=True)
        sh('coqc -Q %s TL %s' % (COQ, os.path.join(COQ, 'Extract', 'Extract.v')), cwd=ex, timeout=600)
        shutil.copy(os.path.join(ROOT, 'ocaml', 'driver.ml'), ex)
        sh('ocamlfind ocamlopt -O3 -w -a tlmodel.mli tlmodel.ml driver.ml -o ../tlmodel', cwd=ex, timeout=600)

def build_impl(release=False):
    """Rebuild the harness against /repo's current working tree (cargo decides what is stale)."""
    with Lock('cargo'):
        lock_src = os.path.join(REPO, 'Cargo.lock')
        lock_dst = os.path.join(ROOT, 'harness', 'Cargo.lock')
        if not os.path.exists(lock_dst):
            shutil.copy(lock_src, lock_dst)
        cmd = 'cargo build --offline' + (' --release' if release else '')
        rc, out = sh(cmd, cwd=os.path.join(ROOT, 'harness'), check=False, timeout=1800)
        if rc != 0:
            sys.stderr.write(out[-3000:])
            raise SystemExit(2)

# ---------------------------------------------------------------- cases
class Case:
    def __init__(self, cid, meta=None):
        self.cid = cid
        self.lines = ['case %s' % cid]
        self.meta = meta or {}
        self.nreq = 0
    def file(self, name, body): self.lines.append('file %s %s' % (hx(name), hx(body))); return self
    def failat(self, k): self.lines.append('failat %s' % ('-' if k is None else k)); return self
    def ctx(self, n): self.lines.append('ctx %d' % n); return self
    def eval(self, text): self.lines.append('eval %s' % hx(text)); self.nreq += 1; return self
    def load(self, name): self.lines.append('load %s' % hx(name)); self.nreq += 1; return self
    def vars(self, names): self.lines.append('vars ' + ' '.join(hx(n) for n in names)); self.nreq += 1; return self
    def parse(self, text): self.lines.append('parse %s' % hx(text)); self.nreq += 1; return self
    def parsex(self, text): self.lines.append('parsex %s' % hx(text)); self.nreq += 1; return self
    def text(self): return '\n'.join(self.lines) + '\nend\n'
    def readable(self):
        out = []
        for l in self.lines:
            p = l.split(' ')
            if p[0] in ('eval', 'load', 'parse', 'parsex'): out.append('%s %s' % (p[0], unhx(p[1])))
            elif p[0] == 'file': out.append('file %s <<%s>>' % (unhx(p[1]), unhx(p[2])))
            elif p[0] == 'vars': out.append('vars ' + ' '.join(unhx(x) for x in p[1:]))
            else: out.append(l)
        return out

def _run_watched(binary, inp, env, wd, timeout, stall):
    """Like subprocess.run, but the process is killed as soon as it has printed nothing for `stall` seconds
    (every request announces itself, so silence means one request is stuck): a hang costs seconds, not `timeout`."""
    import threading, time as _t
    p = subprocess.Popen([binary], stdin=subprocess.PIPE, stdout=subprocess.PIPE, stderr=subprocess.DEVNULL, env=env, cwd=wd)
    chunks = []; last = [_t.time()]
    def feed():
        try:
            p.stdin.write(inp); p.stdin.close()
        except Exception: pass
    def drain():
        while True:
            b = p.stdout.read1(65536) if hasattr(p.stdout, 'read1') else p.stdout.read(65536)
            if not b: break
            chunks.append(b); last[0] = _t.time()
    tf = threading.Thread(target=feed, daemon=True); td = threading.Thread(target=drain, daemon=True)
    tf.start(); td.start()
    t0 = _t.time(); hung = False
    while p.poll() is None:
        _t.sleep(0.2)
        now = _t.time()
        if now - last[0] > stall or now - t0 > timeout:
            hung = True; p.kill(); break
    p.wait(); td.join(timeout=5)
    return (-999 if hung else p.returncode), b''.join(chunks).decode('utf-8', 'replace'), hung

def _run_shard(binary, cases, env, timeout, announce, stall=None):
    """Run one process over a list of cases; survive aborts by restarting after the aborted case.
    Returns dict cid -> list of output lines (a synthetic line marks abort/hang)."""
    res = {}
    i = 0
    hangs = 0
    e = dict(os.environ)
    if env: e.update(env)
    if announce: e['TL_ANNOUNCE'] = '1'
    while i < len(cases):
        wd = tempfile.mkdtemp(prefix='tlrun', dir=os.path.join(BUILD, 'tmp'))
        e['TL_WORKDIR'] = wd
        inp = ''.join(c.text() for c in cases[i:]).encode()
        try:
            if stall:
                rc, out, hung = _run_watched(binary, inp, e, wd, timeout, stall)
            else:
                p = subprocess.run([binary], input=inp, stdout=subprocess.PIPE, stderr=subprocess.PIPE,
                                   env=e, timeout=timeout, cwd=wd)
                rc, out = p.returncode, p.stdout.decode('utf-8', 'replace')
                hung = False
        except subprocess.TimeoutExpired as ex:
            rc, out, hung = -999, (ex.stdout or b'').decode('utf-8', 'replace'), True
        finally:
            shutil.rmtree(wd, ignore_errors=True)
        last_begin = None
        for l in out.split('\n'):
            if not l: continue
            if l.startswith('BEGIN '):
                last_begin = l.split(' ')[1:3]
                continue
            cid = l.split(' ', 1)[0]
            res.setdefault(cid, []).append(l)
        if rc == 0 and not hung:
            break
        # abnormal end: attribute to the request in flight
        if last_begin is None:
            # died before any request: mark the first case
            cid, idx = cases[i].cid, 0
        else:
            cid, idx = last_begin[0], int(last_begin[1])
        have = len(res.get(cid, []))
        tag = 'H' if hung else 'A %d' % rc
        if have <= idx:
            res.setdefault(cid, []).append('%s %d %s T ?' % (cid, idx, tag))
        if hung:
            hangs += 1
            if hangs >= 2:
                break           # a tree that hangs repeatedly is reported from the cases seen so far
        # restart after that case
        j = i
        while j < len(cases) and cases[j].cid != cid: j += 1
        i = j + 1
    return res

def run_side(binary, cases, env=None, timeout=600, announce=False, nproc=None, stall=None):
    from concurrent.futures import ThreadPoolExecutor
    os.makedirs(os.path.join(BUILD, 'tmp'), exist_ok=True)
    nproc = nproc or NPROC
    n = max(1, min(nproc, (len(cases) + 19) // 20))
    shards = [cases[k::n] for k in range(n)]
    out = {}
    with ThreadPoolExecutor(max_workers=n) as ex:
        for r in ex.map(lambda sh_: _run_shard(binary, sh_, env, timeout, announce, stall if announce else None), shards):
            out.update(r)
    return out

def parse_line(l):
    """-> (idx, kind, payload, ticks)"""
    p = l.split(' ')
    idx = int(p[1])
    if p[2] in ('VARS', 'PARSE'):
        return idx, p[2], ' '.join(p[3:]), None
    # V hex | E kind | P .. | F | A rc | H
    if ' T ' in l:
        head, ticks = l.rsplit(' T ', 1)
    else:
        head, ticks = l, '-'
    hp = head.split(' ')
    return idx, hp[2], ' '.join(hp[3:]), ticks

_FLOAT_RE = re.compile(r'(?<![\w.+-])-?\d+\.\d+(?![\w.])')

def canon_floats(text):
    """Floats are compared by the double they denote, never by their digits: two shortest
    round-trip spellings of one double (a tie of the digit generation) are the same value."""
    import struct
    def rep(m):
        try:
            return '#f' + struct.pack('>d', float(m.group(0))).hex()
        except Exception:
            return m.group(0)
    return _FLOAT_RE.sub(rep, text)

def canon_hex(h):
    if h in ('-', '', None): return h
    try:
        return canon_floats(unhx(h))
    except Exception:
        return h

def canon_ticks(t):
    if t in ('-', '?', None): return t
    out = []
    for x in t.split(','):
        if ':' in x:
            a, b = x.split(':', 1)
            out.append(a + ':' + canon_hex(b))
        else: out.append(x)
    return ','.join(out)

def default_observe(kind, payload, ticks):
    """Canonical observable of one request: errors compared by class only."""
    if kind == 'E':
        return ('E', '', canon_ticks(ticks))
    if kind == 'P':
        return ('P', '', canon_ticks(ticks))
    if kind == 'V':
        return ('V', canon_hex(payload), canon_ticks(ticks))
    if kind == 'VARS':
        return ('VARS', ';'.join(a.split(':')[0] + ':' + ','.join(canon_hex(v) for v in a.split(':', 1)[1].split(',')) if ':' in a else a
                                 for a in payload.split(';')), None)
    return (kind, payload, canon_ticks(ticks))

def compare(cases, impl, model, observe=default_observe, skip_kinds=('F',)):
    """Returns (n_requests_compared, n_skipped, disagreements)."""
    dis = []
    ncmp = nskip = 0
    for c in cases:
        il = impl.get(c.cid, [])
        ml = model.get(c.cid, [])
        for k in range(max(len(il), len(ml))):
            if k >= len(ml) or k >= len(il):
                dis.append({'case': c.cid, 'idx': k, 'impl': il[k] if k < len(il) else None,
                            'model': ml[k] if k < len(ml) else None, 'why': 'missing line'})
                break
            ii, ik, ip, it = parse_line(il[k])
            mi, mk, mp, mt = parse_line(ml[k])
            if mk in skip_kinds or (mk == 'E' and mp == 'unmodelled'):
                nskip += 1
                break          # state may have diverged: skip the rest of the case
            ncmp += 1
            if observe(ik, ip, it) != observe(mk, mp, mt):
                dis.append({'case': c.cid, 'idx': k, 'impl': il[k], 'model': ml[k], 'why': 'differ'})
                break
    return ncmp, nskip, dis

# ---------------------------------------------------------------- evidence
def write_evidence(prop, tier, seed, level, coverage, wall, violations=0, assumptions=None):
    os.makedirs(os.path.join(ROOT, 'evidence'), exist_ok=True)
    ev = {'property_id': prop, 'tier': tier, 'seed': seed, 'level': level,
          'coverage': coverage, 'wall_s': round(wall, 2), 'violations': violations,
          'assumptions': assumptions or []}
    with open(os.path.join(ROOT, 'evidence', prop + '.json'), 'w') as f:
        json.dump(ev, f, indent=1)

def write_replay(prop, name, obj):
    os.makedirs(os.path.join(ROOT, 'replays'), exist_ok=True)
    h = hashlib.sha1(json.dumps(obj, sort_keys=True).encode()).hexdigest()[:10]
    path = os.path.join(ROOT, 'replays', '%s-%s-%s.json' % (prop, name, h))
    with open(path, 'w') as f:
        json.dump(obj, f, indent=1)
    return path
