"""Generator of mostly-valid programs over the core forms (C01, C03, C04, C05 ...)."""
from .sexp import *

VARS = ['a', 'b', 'c', 'x', 'y', 'z']
PARAM_VARS = ['n', 'acc', 'p', 'q', 'o1', 'more', 'm', 'e', 'cntv']

class ProgGen:
    def __init__(self, rng, tick_p=0.3, err_p=0.03, max_depth=5, allow=None):
        self.r = rng
        self.tick_p = tick_p
        self.err_p = err_p
        self.max_depth = max_depth
        self.tick_id = 0
        self.fresh = 0
        self.funcs = []      # (name, nparams(min,max))
        self.stats = {}
        self.allow = allow   # optional set of allowed form names

    def note(self, k): self.stats[k] = self.stats.get(k, 0) + 1

    def all_vars(self):
        out = list(VARS) + list(PARAM_VARS)
        for k in range(1, self.fresh + 1):
            for p in ('i', 's', 'l', 'e'):
                out.append('%s%d' % (p, k))
        return out

    def tick(self, e):
        if self.r.random() < self.tick_p:
            self.tick_id += 1
            return ['tick', self.tick_id, e]
        return e

    def fresh_var(self, p='i'):
        self.fresh += 1
        return '%s%d' % (p, self.fresh)

    def pick(self, opts):
        """opts: list of (weight, name, fn)"""
        if self.allow is not None:
            o2 = [o for o in opts if o[1] in self.allow or o[1].startswith('_')]
            if o2: opts = o2
        tot = sum(w for w, _, _ in opts)
        x = self.r.random() * tot
        for w, n, f in opts:
            x -= w
            if x <= 0:
                self.note(n)
                return f()
        self.note(opts[-1][1])
        return opts[-1][2]()

    # ---- atoms
    def lit_int(self): return self.r.choice([0, 1, 2, 3, 5, 7, -1, -3, 10])
    def lit_any(self):
        return self.r.choice([0, 1, 2.5, Str('s'), Str(''), None, True, Q('k'), Q([1, 2]), Q(['a', Str('b')]), ':kw'])

    def var_of(self, env, kind):
        c = [v for v, k in env.items() if k == kind]
        return self.r.choice(c) if c else None

    # ---- expressions producing ints
    def int_e(self, env, d):
        if d <= 0:
            v = self.var_of(env, 'int')
            if v and self.r.random() < 0.6: return self.tick(v)
            return self.tick(self.lit_int())
        if self.r.random() < self.err_p:
            return self.err_e(env, d)
        R = self.r
        def arith():
            op = R.choice(['+', '-', '*', '+', 'max', 'min'])
            n = R.choice([1, 2, 2, 2, 3])
            return [op] + [self.int_e(env, d - 1) for _ in range(n)]
        def onep(): return [R.choice(['1+', '1-']), self.int_e(env, d - 1)]
        def div(): return [R.choice(['/', 'mod']), self.int_e(env, d - 1), R.choice([1, 2, 3, -2, 7])]
        def iff(): return ['if', self.bool_e(env, d - 1), self.int_e(env, d - 1)] + ([self.int_e(env, d - 1)] if R.random() < 0.8 else [])
        def let():
            v = R.choice(VARS); star = R.choice(['let', 'let*'])
            binds = []
            env2 = dict(env)
            for _ in range(R.choice([1, 1, 2, 3])):
                v = R.choice(VARS)
                # sequential let: initialisers see earlier binders (known finding D1 is avoided
                # by never reading a variable bound earlier in the same plain let)
                use_env = env2 if star == 'let*' else {k: t for k, t in env.items() if k not in [b[0] for b in binds if isinstance(b, list)]}
                if R.random() < 0.15:
                    binds.append(v); env2[v] = 'nil'
                else:
                    binds.append([v, self.int_e(use_env, d - 1)]); env2[v] = 'int'
            body = [self.stmt(env2, d - 1) for _ in range(R.choice([0, 0, 1]))] + [self.int_e(env2, d - 1)]
            return [star, binds] + body
        def progn(): return ['progn'] + [self.stmt(env, d - 1) for _ in range(R.choice([0, 1, 2]))] + [self.int_e(env, d - 1)]
        def cond():
            cl = []
            for _ in range(R.choice([1, 2, 3])):
                x = R.random()
                if x < 0.2: cl.append([self.tick(self.int_e(env, d - 1))])          # no body: test value
                elif x < 0.3: cl.append([self.bool_e(env, d - 1)])
                elif x < 0.4: cl.append([self.bool_e(env, d - 1), self.stmt(env, d - 1), self.int_e(env, d - 1)])
                else: cl.append([self.bool_e(env, d - 1), self.int_e(env, d - 1)])
            if R.random() < 0.8: cl.append([True, self.int_e(env, d - 1)])
            return ['cond'] + cl
        def length(): return ['length', self.list_e(env, d - 1)]
        def carl(): return [R.choice(['car', 'cadr', 'nth0']), self.intlist_e(env, d - 1)]
        def call():
            if not self.funcs: return arith()
            name, lo, hi = R.choice(self.funcs)
            n = R.randint(lo, hi if hi is not None else lo + 2)
            if R.random() < 0.05: n = max(0, n + R.choice([-1, 1]))
            args = [self.int_e(env, d - 1) for _ in range(n)]
            if name.startswith('r') and args:
                args[0] = ['mod', args[0], 7]      # bounded recursion depth
            return [name] + args
        def funcall_lam():
            p = R.choice(VARS)
            env2 = dict(env); env2[p] = 'int'
            return ['funcall', ['lambda', [p], self.int_e(env2, d - 1)], self.int_e(env, d - 1)]
        def setq():
            v = R.choice(VARS)
            e = self.int_e(env, d - 1)
            env[v] = 'int'
            return ['setq', v, e]
        def whenunless(): return [R.choice(['when', 'unless']), self.bool_e(env, d - 1), self.int_e(env, d - 1)]
        def andor(): return [R.choice(['and', 'or'])] + [self.int_e(env, d - 1) for _ in range(R.choice([1, 2, 3]))]
        def loop_sum():
            i = self.fresh_var('i'); acc = self.fresh_var('s')
            env2 = dict(env); env2[i] = 'int'; env2[acc] = 'int'
            k = R.choice([0, 1, 2, 3, 4])
            return ['let', [[i, 0], [acc, 0]],
                    ['while', ['<', i, k],
                     ['setq', acc, ['+', acc, self.int_e(env2, d - 2)]],
                     ['setq', i, ['+', i, 1]]],
                    acc]
        def dotimes():
            i = R.choice(VARS + [self.fresh_var('i')]); acc = self.fresh_var('s')
            env2 = dict(env); env2[i] = 'int'; env2[acc] = 'int'
            cnt = R.choice([0, 1, 2, 3, ['+', 1, 1], 'cntv'])
            form = ['dotimes', [i, cnt] + ([acc] if R.random() < 0.5 else []),
                    ['setq', acc, ['+', acc, self.int_e(env2, d - 2)]]]
            if cnt == 'cntv':
                return ['let', [['cntv', 2], [acc, 0]], form, acc]
            return ['let', [[acc, 0]], form, acc]
        def dolist():
            v = R.choice(VARS + [self.fresh_var('e')]); acc = self.fresh_var('s')
            env2 = dict(env); env2[v] = 'int'; env2[acc] = 'int'
            return ['let', [[acc, 0]],
                    ['dolist', [v, (Q(Dot([1, 2], 3)) if R.random() < 0.04 else self.intlist_e(env, d - 1))] + ([acc] if R.random() < 0.3 else []),
                     ['setq', acc, ['+', acc, self.int_e(env2, d - 2)]]],
                    acc]
        def collect():
            i = R.choice(VARS + [self.fresh_var('i')]); acc = self.fresh_var('l')
            env2 = dict(env); env2[i] = 'int'
            loop = R.choice(['dotimes', 'dolist', 'while'])
            item = R.choice([i, ['tick', 0, i], ['+', i, 1], ['list', i, i]])
            if isinstance(item, list) and item[0] == 'tick': self.tick_id += 1; item[1] = self.tick_id
            if loop == 'dotimes':
                form = ['dotimes', [i, R.choice([0, 1, 2, 3, 4])], ['setq', acc, ['cons', item, acc]]]
            elif loop == 'dolist':
                form = ['dolist', [i, self.intlist_e(env, d - 1)], ['setq', acc, ['cons', item, acc]]]
            else:
                form = ['progn', ['setq', i, 0], ['while', ['<', i, R.choice([0, 2, 3])], ['setq', acc, ['cons', item, acc]], ['setq', i, ['1+', i]]]]
                return ['let', [[acc, None], [i, 0]], form, ['length', acc], ['seq-reduce', Q('+'), ['mapcar', ['lambda', ['e'], ['if', ['consp', 'e'], ['car', 'e'], 'e']], acc], 0]]
            return ['let', [[acc, None]], form, ['seq-reduce', Q('+'), ['mapcar', ['lambda', ['e'], ['if', ['consp', 'e'], ['car', 'e'], 'e']], acc], 0]]
        def evalq(): return ['eval', Q(self.int_e(env, d - 1))]
        def reduce_(): return ['seq-reduce', R.choice([Q('+'), FQ('+'), Q('max'), ['lambda', ['p', 'q'], ['+', 'p', 'q']]]), self.intlist_e(env, d - 1), self.int_e(env, d - 1)]
        def tickd(): self.tick_id += 1; return ['tick', self.tick_id, self.int_e(env, d - 1)]
        e = self.pick([(5, '+', arith), (1, '1+', onep), (1, '/', div), (3, 'if', iff), (3, 'let', let),
                       (2, 'progn', progn), (2, 'cond', cond), (1, 'length', length), (1, 'car', carl),
                       (3, 'call', call), (1.5, 'funcall', funcall_lam), (1.5, 'setq', setq),
                       (1, 'when', whenunless), (1, 'and', andor), (1, 'while', loop_sum),
                       (1, 'dotimes', dotimes), (1, 'dolist', dolist), (1, 'collect', collect), (0.5, 'eval', evalq),
                       (0.7, 'seq-reduce', reduce_), (2, '_tick', tickd)])
        if isinstance(e, list) and e and e[0] == 'nth0': e = ['nth', 0, e[1]]
        if isinstance(e, list) and e and e[0] in ('car', 'cadr') and False: pass
        return e

    def intlist_e(self, env, d):
        R = self.r
        if d <= 0 or R.random() < 0.4:
            v = self.var_of(env, 'intlist')
            if v and R.random() < 0.5: return v
            return Q([self.lit_int() for _ in range(R.choice([0, 1, 2, 3, 4]))])
        def lst(): return ['list'] + [self.int_e(env, d - 1) for _ in range(R.choice([0, 1, 2, 3]))]
        def cons(): return ['cons', self.int_e(env, d - 1), self.intlist_e(env, d - 1)]
        def append(): return ['append', self.intlist_e(env, d - 1), self.intlist_e(env, d - 1)]
        def mapcar():
            f = R.choice([Q('1+'), FQ('1-'), ['lambda', ['p'], ['*', 'p', 2]], ['lambda', ['p'], self.int_e({'p': 'int'}, d - 2)]])
            return [R.choice(['mapcar', 'seq-map']), f, self.intlist_e(env, d - 1)]
        def filt(): return ['seq-filter', ['lambda', ['p'], ['<', 'p', R.choice([1, 3, 5])]], self.intlist_e(env, d - 1)]
        def sort(): return ['sort', self.intlist_e(env, d - 1), R.choice([Q('<'), Q('>'), FQ('<=')])]
        def cdr(): return [R.choice(['cdr', 'cddr', 'nthcdr1', 'last']), self.intlist_e(env, d - 1)]
        def bq(): return BQ([self.lit_int(), UQ(self.int_e(env, d - 1)), SPL(self.intlist_e(env, d - 1))])
        e = self.pick([(3, 'list', lst), (2, 'cons', cons), (2, 'append', append), (2, 'mapcar', mapcar),
                       (1, 'seq-filter', filt), (1, 'sort', sort), (1, 'cdr', cdr), (1, 'backquote', bq)])
        if isinstance(e, list) and e and e[0] == 'nthcdr1': e = ['nthcdr', 1, e[1]]
        return e

    def list_e(self, env, d):
        if self.r.random() < 0.8: return self.intlist_e(env, d)
        return Q([self.lit_any() for _ in range(self.r.choice([0, 1, 2, 3]))])

    def bool_e(self, env, d):
        R = self.r
        if d <= 0: return R.choice([True, None, ['<', self.lit_int(), self.lit_int()]])
        def cmp_():
            return [R.choice(['<', '<=', '>', '>='])] + [self.int_e(env, d - 1) for _ in range(R.choice([2, 2, 3]))]
        def not_(): return ['not', self.bool_e(env, d - 1)]
        def andor(): return [R.choice(['and', 'or'])] + [self.bool_e(env, d - 1) for _ in range(R.choice([0, 1, 2, 3]))]
        def xor(): return ['xor', self.bool_e(env, d - 1), self.bool_e(env, d - 1)]
        def pred(): return [R.choice(['null', 'consp', 'listp', 'integerp', 'numberp', 'symbolp', 'stringp', 'floatp', 'keywordp']), self.any_e(env, d - 1)]
        def equal(): return ['equal', self.any_e(env, d - 1), self.any_e(env, d - 1)]
        def lit(): return R.choice([True, None])
        def tk(): self.tick_id += 1; return ['tick', self.tick_id, self.bool_e(env, d - 1)]
        return self.pick([(4, '<', cmp_), (1, 'not', not_), (2, 'and', andor), (0.5, 'xor', xor),
                          (1, 'pred', pred), (0.7, 'equal', equal), (1, '_lit', lit), (1, '_tick', tk)])

    def any_e(self, env, d):
        R = self.r
        x = R.random()
        if x < 0.4: return self.int_e(env, d)
        if x < 0.7: return self.list_e(env, d)
        if x < 0.8: return self.bool_e(env, d)
        return self.tick(self.lit_any())

    def err_e(self, env, d):
        """Deliberately ill-formed / ill-typed expression (separate small stream)."""
        R = self.r
        self.note('_err')
        return R.choice([
            'unbound-var', ['nofn', 1], ['+', 1, Str('s')], ['car', 5], ['nth', Str('x'), Q([1])],
            ['funcall', ['lambda', ['p'], 'p']], ['funcall', ['lambda', ['p'], 'p'], 1, 2],
            ['/', 1, 0], ['mod', 3, 0], ['setq', 'a'], ['if'], ['let', [[1, 2]], 1], ['setq', ':k', 1],
            ['*', 4611686018427387904, 4], ['1+', 9223372036854775807], UQ('a'), ['cons', 1],
            ['dolist', ['e', 5], 1], ['dotimes', ['i', Str('s')], 1], ['let', [['a', 1, 2]], 'a'],
        ])

    def stmt(self, env, d):
        R = self.r
        def setq():
            v = R.choice(VARS)
            e = self.int_e(env, d - 1)
            env[v] = 'int'
            return ['setq', v, e]
        def setl():
            v = R.choice(VARS)
            e = self.intlist_e(env, d - 1)
            env[v] = 'intlist'
            return ['setq', v, e]
        def set_(): 
            v = R.choice(VARS)
            e = self.int_e(env, d - 1)
            env[v] = 'int'
            return ['set', Q(v), e]
        def expr(): return self.int_e(env, d - 1)
        def when(): return [R.choice(['when', 'unless']), self.bool_e(env, d - 1), self.stmt(env, d - 1)]
        return self.pick([(3, 'setq', setq), (1.5, 'setq', setl), (1, 'set', set_), (2, '_expr', expr), (1, 'when', when)])

    # ---- definitions
    def defun(self, idx, env_globals, d):
        R = self.r
        name = 'f%d' % idx
        shape = R.choice(['req', 'req', 'opt', 'rest', 'optrest'])
        nreq = R.choice([0, 1, 1, 2, 3])
        params = [R.choice(VARS + ['p', 'q', 'n']) for _ in range(nreq)]
        env = dict(env_globals)
        for p in params: env[p] = 'int'
        lo, hi = nreq, nreq
        plist = list(params)
        if shape in ('opt', 'optrest'):
            o = R.choice(['o1', 'x', 'b'])
            plist += ['&optional', o]; env[o] = 'any'; hi += 1
        if shape in ('rest', 'optrest'):
            rr = R.choice(['more', 'z'])
            plist += ['&rest', rr]; env[rr] = 'intlist'; hi = None
        body = [self.stmt(env, d - 1) for _ in range(R.choice([0, 0, 1]))] + [self.int_e(env, d)]
        if R.random() < 0.15: body = [Str('doc')] + body
        form = ['defun', name, plist] + body
        self.funcs.append((name, lo, hi))
        return form

    def rec_defun(self, idx):
        """Self-recursive function with tail and non-tail calls mixed (C04)."""
        R = self.r
        name = 'r%d' % idx
        kind = R.choice(['tail-if', 'tail-cond', 'nontail', 'tail-progn-let', 'tail-when'])
        base = ['tick', 9000 + idx, 'acc'] if R.random() < 0.3 else 'acc'
        step = R.choice([['+', 'acc', 'n'], ['+', 'acc', 1], ['*', 'acc', 1], ['+', 'n', 'acc']])
        if R.random() < 0.6: step = ['tick', 9100 + idx, step]
        if kind == 'tail-if':
            body = ['if', ['<', 'n', 1], base, [name, ['-', 'n', 1], step]]
        elif kind == 'tail-cond':
            body = ['cond', [['<', 'n', 1], base], [['<', 'n', 0], 0], [True, [name, ['-', 'n', 1], step]]]
        elif kind == 'nontail':
            body = ['if', ['<', 'n', 1], base, ['+', 1, [name, ['-', 'n', 1], step]]]
        elif kind == 'tail-progn-let':
            body = ['if', ['<', 'n', 1], base, ['progn', ['setq', 'c', 'n'], ['let', [['m', ['-', 'n', 1]]], [name, 'm', step]]]]
        else:
            body = ['progn', ['when', ['<', 'n', 1], base], ['unless', ['<', 'n', 1], [name, ['-', 'n', 1], step]]]
            # when as non-last form is not a tail; the unless in tail position is
        self.funcs.append((name, 2, 2))
        return ['defun', name, ['n', 'acc'], body]

    def program(self, nforms=None):
        """One text: a few top-level forms."""
        R = self.r
        env = dict(self.genv)
        forms = []
        for _ in range(nforms or R.choice([1, 1, 2, 3])):
            if R.random() < 0.4: forms.append(self.stmt(env, self.max_depth))
            else: forms.append(self.any_e(env, self.max_depth))
        for v, k in env.items():
            if v in VARS and self.genv.get(v) != k:
                # a let-bound variable assigned by setq inside let does not create a global; only
                # record globals conservatively as 'any'
                pass
        return forms

    def history(self, ntexts=None, ndefs=None):
        """A history: optional definitions text, then program texts."""
        R = self.r
        self.genv = {}
        self.funcs = []
        texts = []
        nd = R.choice([0, 1, 2, 3]) if ndefs is None else ndefs
        if nd:
            defs = []
            # some globals first
            for v in R.sample(VARS, R.choice([0, 1, 2, 3])):
                defs.append(['setq', v, self.lit_int()]); self.genv[v] = 'int'
            for i in range(nd):
                if R.random() < 0.3: defs.append(self.rec_defun(i))
                else: defs.append(self.defun(i, self.genv, 3))
            texts.append(defs)
        for _ in range(ntexts or R.choice([1, 2, 3])):
            texts.append(self.program())
        return texts

def render_text(forms):
    return '\n'.join(render(f) for f in forms)
