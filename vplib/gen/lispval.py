"""Reference list functions over Python representations of Lisp data (the oracle of C12)."""
from .sexp import *

class LErr(Exception): pass

def is_cons(x): return (isinstance(x, list) and len(x) > 0) or isinstance(x, Dot)
def is_nil(x): return x is None or (isinstance(x, list) and len(x) == 0) or x is False
def car(x):
    if is_nil(x): return None
    if isinstance(x, Dot): return x.items[0]
    if isinstance(x, list): return x[0]
    raise LErr('car')
def cdr(x):
    if is_nil(x): return None
    if isinstance(x, Dot):
        return Dot(x.items[1:], x.tail) if len(x.items) > 1 else x.tail
    if isinstance(x, list):
        return x[1:] if len(x) > 1 else None
    raise LErr('cdr')
def cxr(path, x):
    for ch in reversed(path):
        x = car(x) if ch == 'a' else cdr(x)
    return x
def nthcdr(n, l):
    for _ in range(max(n, 0)):
        if is_nil(l): return None
        l = cdr(l)
    return l
def nth(n, l): return car(nthcdr(n, l))
def length(l):
    if is_nil(l): return 0
    if isinstance(l, list): return len(l)
    raise LErr('length')
def last(l, n=None):
    if is_nil(l): return None
    if not is_cons(l): raise LErr('last')
    ln = len(l.items) if isinstance(l, Dot) else len(l)
    if n is None: n = 1
    if n < 0: raise LErr('last')
    if n >= ln: return l
    return nthcdr(ln - n, l)
def append(*args):
    if not args: return None
    items = []
    for a in args[:-1]:
        if is_nil(a): continue
        if isinstance(a, list): items += a
        else: raise LErr('append')
    t = args[-1]
    if not items: return t
    if is_nil(t): return items
    if isinstance(t, list): return items + t
    if isinstance(t, Dot): return Dot(items + t.items, t.tail)
    return Dot(items, t)
def equal(a, b):
    if is_nil(a) and is_nil(b): return True
    if isinstance(a, bool) or isinstance(b, bool): return a is b
    if isinstance(a, (int, float)) and isinstance(b, (int, float)): return a == b
    if isinstance(a, Str) and isinstance(b, Str): return a.s == b.s
    if isinstance(a, str) and isinstance(b, str): return a == b
    if isinstance(a, list) and isinstance(b, list): return len(a) == len(b) and all(equal(x, y) for x, y in zip(a, b))
    if isinstance(a, Dot) and isinstance(b, Dot):
        return len(a.items) == len(b.items) and all(equal(x, y) for x, y in zip(a.items, b.items)) and equal(a.tail, b.tail)
    if isinstance(a, Wrap) and isinstance(b, Wrap): return a.pre == b.pre and equal(a.x, b.x)
    return False
def elements(l):
    if is_nil(l): return []
    if isinstance(l, list): return l
    if isinstance(l, Dot): return l.items
    raise LErr('not a list')
def assoc(key, alist, test=equal):
    if not (is_nil(alist) or is_cons(alist)): raise LErr('assoc')
    for e in elements(alist):
        if is_cons(e) and test(car(e), key): return e
    return None
def plist_get(pl, prop):
    xs = elements(pl)
    for i in range(0, len(xs), 2):
        if isinstance(xs[i], str) and xs[i] == prop or (is_nil(xs[i]) and is_nil(prop)):
            return xs[i + 1] if i + 1 < len(xs) else None
    return None
def norm(x):
    if isinstance(x, Dot):
        items = [norm(i) for i in x.items]; t = norm(x.tail)
        if is_nil(t): return items
        if isinstance(t, list): return items + t
        if isinstance(t, Dot): return Dot(items + t.items, t.tail)
        return Dot(items, t)
    if isinstance(x, list): return [norm(i) for i in x]
    if isinstance(x, Wrap): return Wrap(x.pre, norm(x.x))
    return x

def show(x):
    """Display of the implementation for data values."""
    x = norm(x)
    if is_nil(x): return 'nil'
    if x is True: return 't'
    return render(x)
