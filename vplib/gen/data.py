"""Data values, their token streams, layouts and canonical structure strings (C09, C16)."""
import struct
from .sexp import *

def hx(s):
    b = s.encode('utf-8'); return b.hex() if b else '-'

SYM_CHARS = 'abcxyz019-+*/<>=!?_:'
# names that look like numbers to a float parser or to another Lisp but are identifiers for this tokenizer
NUMLIKE = ['inf', '-inf', '+inf', 'nan', 'NaN', '-nan', 'infinity', '-infinity', 'Inf', 'INF', '1e5', '2.5e-3', '1E5', '-1e-2', '+5', '+1.5', '1+', '1-',
           '--1', '1.2.3', '1..2', '5e', 'e5', '1_000', '0x10', '1/2', '+', '-', '1a', '-a', '12abc', '3.x', '1.5f', '.e']
def gen_symbol(r):
    if r.random() < 0.06:
        n = r.choice(NUMLIKE)
        if not n.startswith('.'): return n
    while True:
        n = ''.join(r.choice(SYM_CHARS) for _ in range(r.choice([1, 1, 2, 3, 5])))
        if n in ('nil', 't'): continue
        # the parse hook is Parser::parse, which macro-expands the whole text: a data list headed by a
        # built-in macro's name would be expanded (that is C06's subject), so those names are not data here
        if n in ('->', '->>'): continue
        if n.startswith(':') and len(n) == 1: continue
        # must not scan as a number: -?d+ , -?d*.d*  (no '.' in the alphabet, so only integers)
        body = n[1:] if n.startswith('-') else n
        if body.isdigit(): continue
        if n == '-' : return n
        return n

def gen_string(r):
    pool = ['a', 'b', ' ', '"', '\\', '\n', '\t', 'é', '漢', '\U0001F600', '%', ';', '(', ')', "'", 'n', 't']
    return ''.join(r.choice(pool) for _ in range(r.choice([0, 1, 2, 3, 6])))

I64 = [0, 1, -1, 42, -42, 2**63 - 1, -2**63, 2**62, 2**53 + 1, 1000000, -999]
def gen_float(r):
    x = r.random()
    if x < 0.3: return r.choice([0.0, -0.0, 1.0, -1.0, 2.5, 0.1, 1e15, 1e16, 1e17, 1e22, 1e-4, 1e-5, 1e-7, 123456.789, 1e300, 5e-324, 1.7976931348623157e308, 0.30000000000000004])
    if x < 0.6: return r.uniform(-1000, 1000)
    while True:
        f = struct.unpack('>d', struct.pack('>Q', r.getrandbits(64)))[0]
        if f == f and f not in (float('inf'), float('-inf')): return f

def gen_value(r, d):
    x = r.random()
    if d <= 0 or x < 0.35:
        y = r.random()
        if y < 0.2: return r.choice(I64) if r.random() < 0.6 else r.randint(-2**63, 2**63 - 1)
        if y < 0.35: return gen_float(r)
        if y < 0.5: return Str(gen_string(r))
        if y < 0.75: return gen_symbol(r)
        if y < 0.82: return ':' + gen_symbol(r).lstrip(':') if r.random() < 0.9 else ':k'
        if y < 0.9: return None
        return True
    if x < 0.75:
        n = r.choice([0, 1, 2, 3, 4])
        xs = [gen_value(r, d - 1) for _ in range(n)]
        if xs and r.random() < 0.2:
            t = gen_value(r, 0)
            return Dot(xs, t)
        return xs
    pre = r.choice(["'", "`", ",", ",@", "#'"])
    return Wrap(pre, gen_value(r, d - 1))

def canon(v):
    """Structure string in the format of show_ax / show_obj with the spans removed."""
    if v is None or (isinstance(v, list) and not v): return 'nil'
    if v is True: return 't'
    if isinstance(v, bool): return 'nil'
    if isinstance(v, int): return 'i%d' % v
    if isinstance(v, float): return 'f%x' % struct.unpack('>Q', struct.pack('>d', v))[0]
    if isinstance(v, Str): return 's' + hx(v.s)
    if isinstance(v, str): return 'y' + hx(v)
    if isinstance(v, Wrap):
        pre = "'" if v.pre == "#'" else v.pre
        return pre + canon(v.x)
    if isinstance(v, Dot):
        t = v.tail
        its = list(v.items)
        while isinstance(t, (list, Dot)) and t:
            if isinstance(t, Dot): its += t.items; t = t.tail
            else: its += t; t = None
        if t is None or (isinstance(t, list) and not t): return '(' + ' '.join(canon(i) for i in its) + ')'
        return '(' + ' '.join(canon(i) for i in its) + ' . ' + canon(t) + ')'
    if isinstance(v, list): return '(' + ' '.join(canon(i) for i in v) + ')'
    raise TypeError(v)

def tokens(v):
    """List of (text, kind)."""
    if v is None: return [('nil', 'atom')]
    if v is True: return [('t', 'atom')]
    if isinstance(v, int): return [(str(v), 'atom')]
    if isinstance(v, float): return [(fmt_float(v), 'atom')]
    if isinstance(v, Str): return [('"' + escape_for_reader(v.s) + '"', 'string')]
    if isinstance(v, str): return [(v, 'atom')]
    if isinstance(v, Wrap): return [(v.pre, 'prefix')] + tokens(v.x)
    if isinstance(v, Dot):
        out = [('(', 'open')]
        for i in v.items: out += tokens(i)
        return out + [('.', 'dot')] + tokens(v.tail) + [(')', 'close')]
    if isinstance(v, list):
        if not v: return [('(', 'open'), (')', 'close')] 
        out = [('(', 'open')]
        for i in v: out += tokens(i)
        return out + [(')', 'close')]
    raise TypeError(v)

def escape_for_reader(s):
    out = []
    for ch in s:
        if ch == '"': out.append('\\"')
        elif ch == '\\': out.append('\\\\')
        elif ch == '\n' and hash(s) % 2: out.append('\\n')
        elif ch == '\t' and hash(s) % 3 == 0: out.append('\\t')
        else: out.append(ch)
    return ''.join(out)

def sep(r, required):
    """A separator: whitespace / comments; may be empty when not required."""
    k = r.random()
    if not required and k < 0.5: return ''
    pieces = [' ', '  ', '\n', '\t', '\n  ', ' ; comment\n', '\n;; c (with parens "\n', '\r\n', ' ']
    n = r.choice([1, 1, 1, 2])
    return ''.join(r.choice(pieces) for _ in range(n))

def needs_sep(a, b, grammar):
    """Is whitespace required between adjacent tokens a and b?"""
    (ta, ka), (tb, kb) = a, b
    if ka == 'atom':
        if kb == 'close': return False
        if grammar == 'as_built': return True          # an atom swallows ( ' " ` , ; .
        return kb in ('atom', 'dot') or (kb == 'prefix' and tb == "#'")
    if ka == 'dot':
        return kb == 'atom' and tb[0].isdigit() and grammar == 'emacs' and False
    if ka == 'prefix' and ta == ',' and kb == 'atom' and tb.startswith('@'): return True
    if ka == 'prefix' and ta == ',' and kb == 'prefix' and tb == ',@': return False
    return False

def layout(r, toks, grammar='as_built'):
    out = [sep(r, False)]
    for i, t in enumerate(toks):
        out.append(t[0])
        if i + 1 < len(toks):
            out.append(sep(r, needs_sep(t, toks[i + 1], grammar)))
    out.append(sep(r, False))
    return ''.join(out)
