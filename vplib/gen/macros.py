"""Generators for C06: user and built-in macros at any depth."""
from .sexp import *

USER_MACROS = [
    "(defmacro inc (v &optional n) `(setq ,v (+ ,v ,(or n 1))))",
    "(defmacro my-when (c &rest body) `(if ,c (progn ,@body)))",
    "(defmacro my-unless (c &rest body) `(my-when (not ,c) ,@body))",
    "(defmacro twice (x) `(list ,x ,x))",
    "(defmacro k7 () 7)",
    "(defmacro second-arg (a b &rest more) b)",
    "(defmacro with-x (val &rest body) `(let ((x ,val)) ,@body))",
    "(defmacro plus-all (&rest xs) `(+ ,@xs))",
    "(defmacro my-or2 (a b) `(let ((tmp ,a)) (if tmp tmp ,b)))",
    "(defmacro quoted (x) `'(when ,x))",
    "(defmacro pair (a &optional b) `(cons ,a ,b))",
    # macros that use their argument forms as data: the definition is applied to the forms as written
    "(defmacro show (form) `(list ',form ,form))",
    "(defmacro op-of (form) (list 'quote (if (consp form) (car form) form)))",
    "(defmacro keep (&rest forms) `',forms)",
    # templates that hold a built-in macro call whose expansion depends on what is substituted into it
    "(defmacro pipe (x &rest steps) `(-> ,x ,@steps))",
    "(defmacro pipe-last (x &rest steps) `(->> ,x ,@steps))",
    "(defmacro when-all (&rest clauses) `(when ,@clauses))",
    "(defmacro with-bound (spec &rest body) `(if-let ,spec (progn ,@body) 'unbound))",
]
ARITY = {'inc': (1, 2), 'my-when': (1, None), 'my-unless': (1, None), 'twice': (1, 1), 'k7': (0, 0), 'second-arg': (2, None),
         'with-x': (1, None), 'plus-all': (0, None), 'my-or2': (2, 2), 'quoted': (1, 1), 'pair': (1, 2), 'show': (1, 1), 'op-of': (1, 1), 'keep': (0, None), 'pipe': (1, None), 'pipe-last': (1, None), 'when-all': (1, None), 'with-bound': (1, None)}

class MacroGen:
    def __init__(self, rng, tick_p=0.3):
        self.r = rng; self.tid = 0; self.tick_p = tick_p

    def tk(self, e):
        if self.r.random() < self.tick_p:
            self.tid += 1
            return ['tick', self.tid, e]
        return e

    def atom(self): return self.tk(self.r.choice([1, 2, 3, 'a', 'b', 'x', 'n', 's', 's', None, True, 0]))

    def form(self, d):
        r = self.r
        if d <= 0: return self.atom()
        def sub(): return self.form(d - 1)
        c = r.choice(['when', 'unless', 'my-when', 'my-unless', 'twice', 'k7', 'second-arg', 'with-x', 'plus-all', 'my-or2', 'pair', 'inc', 'show', 'op-of', 'keep', 'pipe', 'pipe-last', 'when-all', 'with-bound',
                      '->', '->>', 'thread-first', 'thread-last', 'if-let', 'when-let', 'if-let*', 'while-let',
                      'plain', 'plain', 'let', 'cond', 'quote', 'lambda', 'setq', 'dotted', 'dotcode'])
        if c in ('when', 'unless', 'my-when', 'my-unless'): return [c, sub()] + [sub() for _ in range(r.choice([0, 1, 2]))]
        if c == 'twice': return ['twice', sub()]
        if c in ('pipe', 'pipe-last'):
            steps = [r.choice(['1+', ['+', self.num(d - 1)], ['-', 10], ['list', 0], ['*', 2]]) for _ in range(r.choice([0, 1, 2, 3]))]
            return [c, self.num(d - 1)] + steps
        if c == 'when-all': return [c, sub()] + [sub() for _ in range(r.choice([0, 1, 2, 3]))]
        if c == 'with-bound': return [c, self.let_spec(d - 1), sub()] + [sub() for _ in range(r.choice([0, 1]))]
        if c in ('show', 'op-of'): return [c, sub()]
        if c == 'keep': return ['keep'] + [sub() for _ in range(r.choice([0, 1, 2]))]
        if c == 'k7': return ['k7']
        if c == 'second-arg': return ['second-arg', sub(), sub()] + [sub() for _ in range(r.choice([0, 1]))]
        if c == 'with-x': return ['with-x', sub(), sub()]
        if c == 'plus-all': return ['plus-all'] + [self.num(d - 1) for _ in range(r.choice([0, 1, 2, 3]))]
        if c == 'my-or2': return ['my-or2', sub(), sub()]
        if c == 'pair': return ['pair', sub()] + ([sub()] if r.random() < 0.6 else [])
        if c == 'inc': return ['inc', r.choice(['n', 'a'])] + ([self.num(d - 1)] if r.random() < 0.5 else [])
        if c in ('->', 'thread-first', '->>', 'thread-last'):
            steps = []
            for _ in range(r.choice([0, 1, 2, 3])):
                steps.append(r.choice(['1+', ['+', self.num(d - 1)], ['-', 10], ['list', 0], ['cons', Q('h')] if c in ('->>', 'thread-last') else ['list', 9], ['tick', 900]]))
                if steps[-1] == ['tick', 900]: self.tid += 1; steps[-1] = ['tick', 900 + self.tid]
            return [c, self.num(d - 1)] + steps
        if c in ('if-let', 'if-let*'):
            spec = self.let_spec(d - 1, star=(c == 'if-let*'))
            return [c, spec, sub()] + [sub() for _ in range(r.choice([0, 1, 2]))]
        if c == 'when-let': return [c, self.let_spec(d - 1), sub()] + [sub() for _ in range(r.choice([0, 1]))]
        if c == 'while-let':
            # bounded loop: consume a list
            return ['let', [['lst', Q([1, 2, None, 4])], ['s', 100]], ['while-let', [['e', ['car', 'lst']]], ['setq', 'lst', ['cdr', 'lst']], self.tk(['+', 'e', 's'])], ['list', 'lst', 's']]
        if c == 'plain': return [r.choice(['list', '+', 'cons', 'equal'])] + [sub(), sub()] if r.random() < 0.7 else ['list', sub()]
        if c == 'let': return [r.choice(['let', 'let*']), [[r.choice(['a', 'b', 's', 'x']), sub()]], sub()]
        if c == 'cond': return ['cond', [sub(), sub()], [True, sub()]]
        if c == 'quote':
            if r.random() < 0.4:
                # a quoted (or function-quoted) lambda list is data as well
                lam = ['lambda', ['p'], [r.choice(['when', 'unless', 'my-when', 'inc', '->']), 'p', [r.choice(['twice', 'k7', 'when']), 1]]]
                return r.choice([Q(lam), FQ(lam), ['car', Q([lam, 'x'])], ['equal', Q(lam), ['list', Q('lambda'), Q(['p']), Q(lam[2])]]])
            return Q([r.choice(['when', 'inc', '->', 'my-when']), 1, [r.choice(['unless', 'twice']), 2]])
        if c == 'lambda': return ['funcall', ['lambda', ['p'], ['my-when', 'p', sub()]], sub()]
        if c == 'setq': return ['setq', r.choice(['a', 'b', 'n']), self.num(d - 1)]
        if c == 'dotcode':
            return r.choice([['list', 1, Dot(['progn', sub()], 2)], ['foo', Dot(['w'], 10), ['when', 1, Dot(['h'], 20)]],
                             Dot(['list', sub()], 'tl'), ['progn', Dot([['k7'], 2], ['k7'])]])
        return ['list', Q(Dot([1, ['when', 2]], 3)), sub()]

    def num(self, d):
        r = self.r
        if d <= 0 or r.random() < 0.5: return self.tk(r.choice([1, 2, 3, 'n', 'a']))
        return r.choice([['+', self.num(d - 1), 1], ['plus-all', self.num(d - 1), 2], ['k7'], ['inc', 'n'], ['->', self.num(d - 1), '1+']])

    def let_spec(self, d, star=False):
        r = self.r
        specs = []
        for _ in range(r.choice([1, 1, 2, 3])):
            x = r.random()
            v = r.choice(['u', 'v', 'w', 's'])
            e = self.tk(r.choice([1, None, 'a', 's', ['car', Q([5])], ['cdr', Q([5])], 'n']))
            if x < 0.6: specs.append([v, e])
            elif x < 0.85: specs.append([e])          # anonymous binding (EXPR)
            else: specs.append(r.choice(['a', 's', 'n']))    # bare symbol: bound to its own value
        if not star and len(specs) == 1 and isinstance(specs[0], list) and len(specs[0]) == 2 and r.random() < 0.5:
            return specs[0]                          # (if-let (v e) ...) single binding form
        if r.random() < 0.05: return None
        return specs

def prelude():
    return ' '.join(USER_MACROS) + " (setq a 1) (setq b 2) (setq n 10) (setq x 'gx) (setq s 's-global)"
