"""S-expressions in Python and their rendering to tulisp text."""
class Str:
    def __init__(self, s): self.s = s
class Dot:
    def __init__(self, items, tail): self.items, self.tail = items, tail
class Wrap:
    def __init__(self, pre, x): self.pre, self.x = pre, x
def Q(x): return Wrap("'", x)
def BQ(x): return Wrap("`", x)
def UQ(x): return Wrap(",", x)
def SPL(x): return Wrap(",@", x)
def FQ(x): return Wrap("#'", x)
class Raw:
    def __init__(self, t): self.t = t

def fmt_float(f):
    r = repr(float(f))
    if 'e' in r or 'inf' in r or 'nan' in r:
        # plain decimal only
        from decimal import Decimal
        r = format(Decimal(float(f)), 'f')
    if '.' not in r: r += '.0'
    return r

def escape(s):
    out = []
    for ch in s:
        if ch == '"': out.append('\\"')
        elif ch == '\\': out.append('\\\\')
        else: out.append(ch)
    return ''.join(out)

def render(x):
    if isinstance(x, bool): return 't' if x else 'nil'
    if x is None: return 'nil'
    if isinstance(x, int): return str(x)
    if isinstance(x, float): return fmt_float(x)
    if isinstance(x, str): return x
    if isinstance(x, Str): return '"' + escape(x.s) + '"'
    if isinstance(x, Raw): return x.t
    if isinstance(x, Wrap): return x.pre + render(x.x)
    if isinstance(x, Dot): return '(' + ' '.join(render(i) for i in x.items) + ' . ' + render(x.tail) + ')'
    if isinstance(x, (list, tuple)):
        if len(x) == 0: return 'nil'
        return '(' + ' '.join(render(i) for i in x) + ')'
    raise TypeError(repr(x))

def size(x):
    if isinstance(x, Wrap): return 1 + size(x.x)
    if isinstance(x, Dot): return 1 + sum(size(i) for i in x.items) + size(x.tail)
    if isinstance(x, (list, tuple)): return 1 + sum(size(i) for i in x)
    return 1

def children(x):
    """(getter/setter-free) list of (path) for shrinking: returns list of child values."""
    if isinstance(x, Wrap): return [x.x]
    if isinstance(x, Dot): return list(x.items) + [x.tail]
    if isinstance(x, (list, tuple)): return list(x)
    return []
