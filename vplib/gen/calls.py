"""Generators for C02: callee kinds x routes x parameter shapes x argument expressions."""
from .sexp import *

PNAMES = ['a', 'b', 'c', 'x', 'y', 'z']

# built-ins with an argument-kind signature: i=int n=number l=list s=string y=symbol a=any f1=function of one arg
BUILTINS = [
    ('+', 'nnn'), ('-', 'nn'), ('*', 'nn'), ('/', 'nz'), ('mod', 'iz'), ('1+', 'n'), ('1-', 'n'), ('max', 'nnn'), ('min', 'nn'),
    ('<', 'nnn'), ('<=', 'nn'), ('>', 'nnn'), ('>=', 'nn'), ('expt', 'nn'), ('fround', 'F'), ('ftruncate', 'F'),
    ('cons', 'aa'), ('list', 'aaa'), ('append', 'lll'), ('car', 'l'), ('cdr', 'l'), ('cadr', 'l'), ('cddr', 'l'), ('caar', 'L'),
    ('nth', 'il'), ('nthcdr', 'il'), ('last', 'l'), ('length', 'l'), ('assoc', 'aA'), ('alist-get', 'aAa'), ('plist-get', 'Py'),
    ('equal', 'aa'), ('eq', 'yy'), ('null', 'a'), ('not', 'a'), ('xor', 'aa'),
    ('consp', 'a'), ('listp', 'a'), ('integerp', 'a'), ('floatp', 'a'), ('numberp', 'a'), ('stringp', 'a'), ('symbolp', 'a'), ('keywordp', 'a'),
    ('concat', 'sss'), ('format', 'saa'), ('prin1-to-string', 'a'), ('princ', 'a'), ('print', 'a'),
    ('string<', 'ss'), ('string>', 'ss'), ('string=', 'ss'), ('string-lessp', 'ss'), ('string-equal', 'ss'),
    ('intern', 's'), ('make-symbol', 's'), ('eval', 'a'), ('host-add', 'ii'),
    ('and', 'aaa'), ('or', 'aaa'), ('if', 'aaa'), ('progn', 'aaa'), ('when', 'aa'), ('unless', 'aa'), ('setq', 'Ya'), ('set', 'ya'),
    ('mapcar', '1l'), ('seq-map', '1l'), ('seq-filter', '1l'), ('seq-find', '1l'), ('seq-reduce', '2li'), ('sort', 'l<'),
    ('funcall', '1a'), ('gethash', 'iH'), ('puthash', 'iaH'),
]

def arg_of_kind(r, k):
    if k == 'i': return r.choice([0, 1, 2, 3, -1, 7])
    if k == 'z': return r.choice([1, 2, 3, -2, 0])
    if k == 'n': return r.choice([0, 1, 2, -3, 2.5, 1.0, 7])
    if k == 'F': return r.choice([2.5, -1.5, 0.25, 3])
    if k == 'l': return r.choice([Q([1, 2, 3]), None, Q([3, 1]), ['list', 1, 2], Q(['a', 'b']), Q([[1, 2], [3]])])
    if k == 'L': return r.choice([Q([[1, 2], [3]]), Q([['a']]), None])
    if k == 's': return r.choice([Str('a'), Str(''), Str('bc'), Str('%d')])
    if k == 'y': return r.choice([Q('a'), Q('k'), Q(':kw'), Q('nil')])
    if k == 'Y': return r.choice(PNAMES)
    if k == 'A': return r.choice([Q([Dot(['a'], 1), Dot(['b'], 2)]), Q([Dot([1], 'x'), 5, Dot([2], 'y')]), None])
    if k == 'P': return r.choice([Q(['a', 1, 'b', 2]), Q([':kw', 5]), None])
    if k == '1': return r.choice([Q('1+'), FQ('car'), ['lambda', ['p'], 'p'], Q('symbolp'), Q('consp'), Q('list'), Q('not')])
    if k == '2': return r.choice([Q('+'), FQ('max'), ['lambda', ['p', 'q'], ['+', 'p', 'q']], Q('cons')])
    if k == '<': return r.choice([Q('<'), Q('>'), ['lambda', ['p', 'q'], ['<', 'p', 'q']]])
    if k == 'H': return 'htab'
    return r.choice([1, Str('s'), Q('sym'), Q([1, 2]), None, True, 2.5, ':kw', Q(['a', ['b']]), Q(Q('q'))])

class CallGen:
    def __init__(self, rng):
        self.r = rng
        self.tid = 0

    def tk(self, e):
        self.tid += 1
        return ['tick', self.tid, e]

    def arg_expr(self, base, params):
        """An argument expression around the value-expression `base`; may read or assign a parameter name."""
        r = self.r
        x = r.random()
        if x < 0.55: return self.tk(base)
        v = r.choice(params or PNAMES)
        if x < 0.7: return self.tk(['progn', ['setq', v, base], v])
        if x < 0.8: return self.tk(v)
        if x < 0.9: return ['progn', self.tk(['setq', v, ['list', Q('set'), Q(v)]]), self.tk(base)]
        return base

    def param_list(self, nreq, nopt, rest, names=None):
        names = list(names or self.r.sample(PNAMES, nreq + nopt + rest))
        ps = names[:nreq]
        if nopt: ps += ['&optional'] + names[nreq:nreq + nopt]
        if rest: ps += ['&rest', names[nreq + nopt]]
        return ps, names[:nreq + nopt + rest]

    def body(self, names):
        self.tid += 1
        return [['tick', 1000 + self.tid, ['list'] + names]]

    def user_callee_case(self, nreq, nopt, rest, argc, kind, route, atoms=False):
        """One history: define the callee, call it through `route` with argc tick'd arguments.
        atoms=True: every argument is an atom (a bare variable named like a parameter, or a constant):
        a call whose arguments need no evaluation of a form."""
        r = self.r
        self.tid = 0
        ps, names = self.param_list(nreq, nopt, rest)
        body = self.body(names)
        pre = [['setq', v, Q(['g', v])] for v in PNAMES]     # globals named like the parameters
        if atoms:
            args = [r.choice((names or PNAMES) + (names or PNAMES) + [r.choice(PNAMES), 1, Str('x'), ':kw', None]) for _ in range(argc)]
        else:
            args = [self.arg_expr(r.choice([1, 2, Q('s'), Q([1]), Str('x')]), names) for _ in range(argc)]
        if kind == 'defun':
            pre.append(['defun', 'callee', ps] + body); fexpr = Q('callee'); head = 'callee'
        elif kind == 'lambda':
            pre.append(['setq', 'fn', ['lambda', ps] + body]); fexpr = 'fn'; head = 'fn'
        elif kind == 'closure':
            pre.append(['setq', 'fn', ['let', [['k', 5]], ['lambda', ps] + [['progn', 'k'] ] + body]]); fexpr = 'fn'; head = 'fn'
        elif kind == 'macro':
            pre.append(['defmacro', 'callee', ps] + [['tick', 1999, ['list', Q('quote'), ['list'] + names]]]); fexpr = None; head = 'callee'
        if route in ('mapcar', 'seq-map', 'seq-filter', 'seq-find') and kind != 'macro':
            # the callee applied to one element at a time by a sequence function: one argument per call, whatever the shape
            elems = Q([1, Q('s') if False else 's', [2, 3], None])
            fx = fexpr if kind != 'defun' or r.random() < 0.5 else FQ('callee')
            call = [route, fx, self.tk(elems) if hasattr(self, 'tk') else elems]
            return [pre, [call], [['list'] + PNAMES]]
        if route == 'direct' or kind == 'macro': call = [head] + args
        elif route == 'funcall': call = ['funcall', fexpr] + args
        elif route == 'funcall-sharp' and kind == 'defun': call = ['funcall', FQ('callee')] + args
        else: call = ['funcall', fexpr] + args
        return [pre, [call], [['list'] + PNAMES]]

    def builtin_case(self):
        r = self.r
        self.tid = 0
        name, sig = r.choice(BUILTINS)
        n = len(sig)
        # vary the number of arguments a little
        if r.random() < 0.15: n = max(0, n + r.choice([-1, 1, 2]))
        args = []
        for i in range(n):
            k = sig[min(i, len(sig) - 1)]
            base = arg_of_kind(r, k)
            if k == 'Y': args.append(base)
            else: args.append(self.arg_expr(base, PNAMES))
        pre = [['setq', v, i] for i, v in enumerate(PNAMES)] + [['setq', 'htab', ['make-hash-table']]]
        route = r.choice(['direct', 'direct', 'funcall', 'funcall-sharp'])
        if route == 'direct' or name in ('and', 'or', 'if', 'progn', 'when', 'unless', 'setq', 'set'):
            call = [name] + args
        elif route == 'funcall': call = ['funcall', Q(name)] + args
        else: call = ['funcall', FQ(name)] + args
        return [pre, [call], [['list'] + PNAMES]]

    def higher_order_case(self):
        """Higher-order built-ins applied to elements of every kind; callee is a built-in name, a
        function-quoted name, a lambda, a closure or a defun."""
        r = self.r
        self.tid = 0
        elems = r.choice([
            Q(['a', 'b', 'c']), Q([[1, 2], [3], None]), Q([1, 2, 3]), Q([Str('x'), Str('y')]),
            Q([Q('a'), Q('b')]), Q(['a', 1, Str('s'), [2]]), Q([[Q('q')], ['x']]), Q([':k', 'nil', 't']),
            Q([['+', 1, 2], ['car', 'x']]), Q([3, 1, 2]), None])
        one = r.choice([Q('symbolp'), Q('consp'), Q('car'), FQ('car'), Q('list'), Q('listp'), Q('not'), Q('null'), Q('stringp'),
                        Q('integerp'), Q('length'), Q('prin1-to-string'), Q('identity1'), ['lambda', ['p'], self.tk('p')],
                        ['lambda', ['p'], ['list', 'p', 'p']], 'clos1', Q('eval'), Q('cadr'), Q('keywordp'), Q('1+')])
        two = r.choice([Q('cons'), Q('list'), Q('equal'), Q('eq'), ['lambda', ['p', 'q'], self.tk(['list', 'p', 'q'])], Q('two'),
                        Q('<'), Q('string<'), FQ('max'), Q('+'), Q('append'), Q('xor'), Q('and2')])
        pre = [['defun', 'identity1', ['p'], self.tk('p')], ['defun', 'two', ['p', 'q'], self.tk(['cons', 'p', 'q'])],
               ['defun', 'and2', ['p', 'q'], ['and', 'p', 'q']],
               ['setq', 'clos1', ['let', [['k', Q('kk')]], ['lambda', ['p'], ['list', 'k', 'p']]]],
               ['setq', 'a', 1], ['setq', 'b', 2], ['setq', 'c', 3], ['setq', 'x', Q([9])], ['setq', 'q', 7]]
        form = r.choice(['mapcar', 'seq-map', 'seq-filter', 'seq-find', 'seq-reduce', 'sort', 'assoc', 'alist-get', 'funcall1', 'funcall2'])
        if form in ('mapcar', 'seq-map', 'seq-filter', 'seq-find'): call = [form, self.tk(one), self.tk(elems)]
        elif form == 'seq-reduce': call = [form, self.tk(two), self.tk(elems), self.tk(r.choice([0, None, Q('init'), Q([0])]))]
        elif form == 'sort': call = [form, self.tk(elems), self.tk(two)]
        elif form == 'assoc':
            al = r.choice([Q([Dot(['a'], 1), Dot(['b'], 2)]), Q([Dot([[1]], 'x'), Dot([[2]], 'y')]), Q([Dot([Str('k')], 1)]), Q([Dot([1], 1), 7, Dot([2], 2)])])
            call = [form, self.tk(r.choice([Q('b'), Q([2]), Str('k'), 2])), self.tk(al), self.tk(two)]
        elif form == 'alist-get':
            al = r.choice([Q([Dot(['a'], 1), Dot(['b'], 2)]), Q([Dot([[1]], 'x'), Dot([[2]], 'y')]), Q([Dot([Str('k')], 1)])])
            call = [form, self.tk(r.choice([Q('b'), Q([2]), Str('k')])), self.tk(al), self.tk(Q('dflt')), None, self.tk(two)]
        elif form == 'funcall1':
            call = ['funcall', one, self.tk(r.choice([Q('a'), Q([1, 2]), 5, Str('s'), Q(Q('v'))]))]
        else:
            call = ['funcall', two, self.tk(r.choice([Q('a'), Q([1, 2]), 5, Str('s')])), self.tk(r.choice([Q('b'), Q([3]), 6, Str('t')]))]
        return [pre, [call], [['list', 'a', 'b', 'c', 'x', 'q']]]

    def tailrec_case(self):
        """Self tail calls whose argument values are symbols, lists and forms (must not be evaluated again)."""
        r = self.r
        self.tid = 0
        elems = r.choice([Q(['a', 'b', 'c']), Q([[1, 2], ['x']]), Q([['+', 1, 2], 'y']), Q([Q('a'), 1, Str('s')]), Q([':k', 'sym'])])
        shape = r.choice(['if', 'cond', 'progn', 'let', 'opt', 'rest', 'opt-omitted', 'opt-omitted', 'rest-omitted'])
        if shape in ('opt-omitted', 'rest-omitted'):
            # the tail call supplies fewer arguments than the activation before it had: the missing &optional parameters
            # are nil and &rest is empty again, whatever they held in the previous activation
            if shape == 'opt-omitted':
                d = ['defun', 'walk', ['l', '&optional', 'seen', 'more'],
                     ['cond', [['null', 'l'], ['list', Q('done'), 'seen', 'more']],
                              [['eq', ['car', 'l'], Q('a')], ['walk', ['cdr', 'l'], self.tk(['car', 'l']), self.tk(['cdr', 'l'])]],
                              [['eq', ['car', 'l'], Q('b')], ['walk', ['cdr', 'l'], self.tk(['list', 'seen'])]],
                              [True, ['walk', ['cdr', 'l']]]]]
            else:
                d = ['defun', 'walk', ['l', '&rest', 'acc'], ['if', ['null', 'l'], ['list', Q('done'), 'acc'],
                     ['if', ['eq', ['car', 'l'], Q('a')], ['walk', ['cdr', 'l'], self.tk(['car', 'l']), 'acc'], ['walk', ['cdr', 'l']]]]]
            els = [r.choice(['a', 'b', 'c', 'a']) for _ in range(r.choice([1, 2, 3, 4, 5]))]
            args = [Q(els)] + [r.choice([Q('s0'), 1, None]) for _ in range(r.choice([0, 1, 2]))]
            call = r.choice([['walk'] + args, ['funcall', Q('walk')] + args, ['mapcar', ['lambda', ['e'], ['walk', ['list', 'e', Q('c')], 7]], Q(els)]])
            return [[d, ['setq', 'a', 1], ['setq', 'y', 2], ['setq', 'x', 3], ['setq', 'sym', 4]], [call], [['list', 'a', 'y']]]
        step = ['walk', ['cdr', 'l'], self.tk(['cons', ['car', 'l'], 'acc'])]
        if shape == 'if': d = ['defun', 'walk', ['l', 'acc'], ['if', ['null', 'l'], 'acc', step]]
        elif shape == 'cond': d = ['defun', 'walk', ['l', 'acc'], ['cond', [['null', 'l'], 'acc'], [True, step]]]
        elif shape == 'progn': d = ['defun', 'walk', ['l', 'acc'], ['if', ['null', 'l'], 'acc', ['progn', self.tk(1), step]]]
        elif shape == 'let': d = ['defun', 'walk', ['l', 'acc'], ['if', ['null', 'l'], 'acc', ['let', [['h', ['car', 'l']]], ['walk', ['cdr', 'l'], ['cons', 'h', 'acc']]]]]
        elif shape == 'opt': d = ['defun', 'walk', ['l', '&optional', 'acc'], ['if', ['null', 'l'], 'acc', step]]
        else: d = ['defun', 'walk', ['l', '&rest', 'acc'], ['if', ['null', 'l'], 'acc', ['walk', ['cdr', 'l'], ['car', 'l'], ['car', 'acc']]]]
        call = r.choice([['walk', elems, None], ['funcall', Q('walk'), elems, None], ['mapcar', ['lambda', ['e'], ['walk', ['list', 'e', 'e'], None]], elems]])
        if shape == 'opt' and r.random() < 0.5: call = ['walk', elems]
        return [[d, ['setq', 'a', 1], ['setq', 'y', 2], ['setq', 'x', 3], ['setq', 'sym', 4]], [call], [['list', 'a', 'y']]]
